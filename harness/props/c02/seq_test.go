package c02

// Sequence kinds: the "encode" kind judges one call on fresh objects; these judge what only
// shows over a HISTORY of calls on long-lived objects.
//
//	revalidate  (F4) one definition object is used, edited in place (a nested component's type
//	            changes), validated again as the library documents, and used again: the bytes must
//	            be those of the edited definition.
//	history     (F1/F2) several inputs through ONE parameter array / entry: every result is kept
//	            and re-judged after the later calls (no re-used output buffers, no verdict that
//	            depends on what was encoded before), caller-owned input memory is neither written
//	            nor needed afterwards, value trees built earlier still encode correctly later.
//	shared      (F3) several goroutines, released together, encode different inputs through ONE
//	            freshly validated parameter array / entry (first use included).

import (
	"bytes"
	"fmt"
	"math/big"
	"sort"
	"strings"
	"sync"

	"github.com/hyperledger/firefly-signer/pkg/abi"
	"pgregory.net/rapid"

	"verifharness/evid"
	"verifharness/gen/abigen"
	"verifharness/gen/abigen/abilib"
	"verifharness/ref/abiref"
)

// ---------------------------------------------------------------- revalidate

// RevalCase: Steps[i].Params is the definition after the i-th in-place edit; Steps[i].Input is
// encoded under it. Fn / InternalTypes are taken from Steps[0].
type RevalCase struct {
	Steps []EncodeCase `json:"steps"`
	Level string       `json:"level"` // where Validate() is called again: param | entry | abi
}

func validateAt(level string, pa abi.ParameterArray, entry *abi.Entry) error {
	holder := &abi.Entry{Type: abi.Function, Name: "g", Inputs: pa}
	switch level {
	case "entry":
		if err := holder.Validate(); err != nil {
			return err
		}
		if entry != nil {
			return entry.Validate()
		}
	case "abi":
		a := abi.ABI{holder}
		if entry != nil {
			a = append(a, entry)
		}
		return a.Validate()
	default:
		for _, p := range pa {
			if err := p.Validate(); err != nil {
				return err
			}
		}
		if entry != nil {
			for _, p := range entry.Inputs {
				if err := p.Validate(); err != nil {
					return err
				}
			}
		}
	}
	return nil
}

func judgeReval(c RevalCase) (vs []evid.Violation) {
	if len(c.Steps) == 0 {
		return []evid.Violation{evid.V("harness", "no steps")}
	}
	first := c.Steps[0]
	_, pa, err := parseParams(first)
	if err != nil {
		return []evid.Violation{evid.V("harness", "bad case: %v", err)}
	}
	var entry *abi.Entry
	if first.Fn != "" {
		_, pa2, _ := parseParams(first)
		entry = &abi.Entry{Type: abi.Function, Name: first.Fn, Inputs: pa2}
	}
	for i, st := range c.Steps {
		t, err := abiref.ParseDecl(st.Params)
		if err != nil || t.Kind != abiref.Tuple {
			return []evid.Violation{evid.V("harness", "bad step %d: %v", i, err)}
		}
		if t.HasZeroSizeArrayElem() {
			return []evid.Violation{evid.V("harness", "step %d is outside the quantifier", i)}
		}
		if i > 0 {
			var verr error
			if pv := evid.Guard("no-panic", func() {
				if verr = abilib.Morph(&pa, t, first.InternalTypes); verr != nil {
					return
				}
				if entry != nil {
					if verr = abilib.Morph(&entry.Inputs, t, first.InternalTypes); verr != nil {
						return
					}
				}
				verr = validateAt(c.Level, pa, entry)
			}); pv != nil {
				return append(vs, *pv)
			}
			if verr != nil {
				return append(vs, evid.V("revalidate-accepts-valid", "step %d: after editing the definition in place to %s, Validate (%s level) returned %v", i, st.Params, c.Level, verr))
			}
		}
		st.Fn, st.InternalTypes = first.Fn, first.InternalTypes
		for _, v := range judgeEncodeWith(st, t, pa, entry) {
			if i > 0 {
				v.Clause = "revalidated:" + v.Clause
				v.Detail = fmt.Sprintf("step %d: the definition %s was edited in place to %s and validated again (%s level); %s", i, c.Steps[i-1].Params, st.Params, c.Level, v.Detail)
			}
			vs = append(vs, v)
		}
		if len(vs) > 0 {
			return vs
		}
	}
	return vs
}

// ---------------------------------------------------------------- history

type Call struct {
	Mode  string     `json:"mode"`
	Input abigen.Ext `json:"input"`
}

// HistoryCase is a sequence of inputs through one definition.
type HistoryCase struct {
	Params        string `json:"params"`
	InternalTypes bool   `json:"internalTypes,omitempty"`
	Fn            string `json:"fn,omitempty"`
	Calls         []Call `json:"calls"`
}

// dumpGo renders a Go input value canonically (for "the call did not write to my input").
func dumpGo(v interface{}, sb *strings.Builder) {
	switch x := v.(type) {
	case []interface{}:
		sb.WriteByte('[')
		for _, e := range x {
			dumpGo(e, sb)
			sb.WriteByte(',')
		}
		sb.WriteByte(']')
	case map[string]interface{}:
		keys := make([]string, 0, len(x))
		for k := range x {
			keys = append(keys, k)
		}
		sort.Strings(keys)
		sb.WriteByte('{')
		for _, k := range keys {
			fmt.Fprintf(sb, "%q:", k)
			dumpGo(x[k], sb)
			sb.WriteByte(',')
		}
		sb.WriteByte('}')
	case []byte:
		fmt.Fprintf(sb, "bytes(len=%d,cap=%d):%x|%x", len(x), cap(x), x, x[:cap(x)][len(x):])
	case []string:
		fmt.Fprintf(sb, "%q", x)
	case []*big.Int:
		sb.WriteByte('[')
		for _, e := range x {
			sb.WriteString(e.String())
			sb.WriteByte(',')
		}
		sb.WriteByte(']')
	case *big.Int:
		sb.WriteString("big:" + x.String())
	case *big.Float:
		sb.WriteString("bigfloat:" + x.Text('g', -1) + fmt.Sprintf("/%d", x.Prec()))
	default:
		fmt.Fprintf(sb, "%T:%v", v, v)
	}
}

func dumped(v interface{}) string {
	var sb strings.Builder
	dumpGo(v, &sb)
	return sb.String()
}

// scribbleGo overwrites every []byte of a Go input in place (its spare capacity included).
func scribbleGo(v interface{}) {
	switch x := v.(type) {
	case []interface{}:
		for _, e := range x {
			scribbleGo(e)
		}
	case map[string]interface{}:
		for _, e := range x {
			scribbleGo(e)
		}
	case []byte:
		full := x[:cap(x)]
		for i := range full {
			full[i] ^= 0xFF
		}
	}
}

type keptResult struct {
	call    int
	api     string
	out     []byte
	snap    []byte
	err     error
	want    []byte
	o       *owed
	cv      *abi.ComponentValue // built from the same input (ParseJSON / ParseExternalData), encoded later
	cvErr   error
	cvNoted string
}

func judgeHistory(c HistoryCase) (vs []evid.Violation) {
	ec := EncodeCase{Params: c.Params, InternalTypes: c.InternalTypes}
	t, pa, err := parseParams(ec)
	if err != nil {
		return []evid.Violation{evid.V("harness", "bad case: %v", err)}
	}
	if t.HasZeroSizeArrayElem() {
		return nil
	}
	var entry *abi.Entry
	var sel []byte
	if c.Fn != "" {
		_, pa2, _ := parseParams(ec)
		entry = &abi.Entry{Type: abi.Function, Name: c.Fn, Inputs: pa2}
		sel = abiref.Selector(abiref.Signature(c.Fn, t))
	}
	add := func(v *evid.Violation, call int) {
		if v != nil {
			v.Detail = fmt.Sprintf("call %d of %d on one definition of %s: %s", call, len(c.Calls), c.Params, v.Detail)
			vs = append(vs, *v)
		}
	}
	var kept []*keptResult
	encode := func(i int, call Call, o *owed) (res []*keptResult, bad bool) {
		var txtOwned *abilib.Owned
		var goVal interface{}
		var before string
		if call.Mode == "json" {
			txt, err := call.Input.JSON()
			if err != nil {
				vs = append(vs, evid.V("harness", "bad case: %v", err))
				return nil, true
			}
			txtOwned = abilib.NewOwned(txt)
		} else {
			goVal = call.Input.Go()
			before = dumped(goVal)
		}
		k := &keptResult{call: i, o: o, want: o.want}
		var k2 *keptResult
		if pv := evid.Guard("no-panic", func() {
			if call.Mode == "json" {
				k.api = "EncodeABIDataJSON"
				k.out, k.err = pa.EncodeABIDataJSON(txtOwned.Bytes())
			} else {
				k.api = "EncodeABIDataValues"
				k.out, k.err = pa.EncodeABIDataValues(goVal)
			}
			if entry != nil {
				k2 = &keptResult{call: i, o: o}
				if o.r.v != vReject {
					k2.want = append(append([]byte{}, sel...), o.want...)
				}
				if call.Mode == "json" {
					k2.api = "EncodeCallDataJSON"
					k2.out, k2.err = entry.EncodeCallDataJSON(txtOwned.Bytes())
				} else {
					k2.api = "EncodeCallDataValues"
					k2.out, k2.err = entry.EncodeCallDataValues(goVal)
				}
			}
		}); pv != nil {
			add(pv, i)
			return nil, true
		}
		// F2: the caller's memory was not written to ...
		if txtOwned != nil && !txtOwned.Unchanged() {
			add(ptr(evid.V("input-not-written", "%s wrote to the caller's JSON text buffer (or to the memory around it)", k.api)), i)
		}
		if goVal != nil {
			if after := dumped(goVal); after != before {
				add(ptr(evid.V("input-not-written", "%s modified the caller's Go input value: before %s after %s", k.api, clip(before), clip(after))), i)
			}
		}
		// ... and is not needed any more once the bytes have been returned
		if txtOwned != nil {
			txtOwned.Scribble()
		} else {
			scribbleGo(goVal)
		}
		res = append(res, k)
		if k2 != nil {
			res = append(res, k2)
		}
		for _, r := range res {
			r.snap = append([]byte{}, r.out...)
			add(o.settle(r.api, r.out, r.err, r.want), i)
		}
		// a value tree of the same input, kept for later
		if pv := evid.Guard("no-panic", func() {
			if call.Mode == "json" {
				txt, _ := call.Input.JSON()
				own := abilib.NewOwned(txt)
				k.cv, k.cvErr = pa.ParseJSON(own.Bytes())
				k.cvNoted = "ParseJSON"
				if !own.Unchanged() {
					add(ptr(evid.V("input-not-written", "ParseJSON wrote to the caller's JSON text buffer")), i)
				}
				own.Scribble() // the text is the caller's; the tree must not depend on it
			} else {
				k.cv, k.cvErr = pa.ParseExternalData(call.Input.Go())
				k.cvNoted = "ParseExternalData"
			}
		}); pv != nil {
			add(pv, i)
			return res, true
		}
		return res, len(vs) > 0
	}
	first := -1
	for i, call := range c.Calls {
		o, err := reference(t, call.Input)
		if err != nil {
			return []evid.Violation{evid.V("harness", "%v", err)}
		}
		if o.r.v == vUnspec {
			continue // outside the property: the library is not even called
		}
		if first < 0 {
			first = i
		}
		res, bad := encode(i, call, o)
		if bad {
			return vs
		}
		kept = append(kept, res...)
	}
	// F1: every earlier result is still what it was, and still right
	for _, k := range kept {
		if !bytes.Equal(k.out, k.snap) {
			add(ptr(evid.V("result-stable", "the bytes returned by %s changed after later calls: were %s, are now %s", k.api, short(k.snap), short(k.out))), k.call)
			continue
		}
		add(k.o.settle(k.api+" (re-judged after the later calls)", k.out, k.err, k.want), k.call)
	}
	for _, k := range kept {
		if k.cvNoted == "" {
			continue
		}
		var enc []byte
		eerr := k.cvErr
		if eerr == nil {
			if pv := evid.Guard("no-panic", func() { enc, eerr = k.cv.EncodeABIData() }); pv != nil {
				add(pv, k.call)
				continue
			}
		}
		add(k.o.settle(k.cvNoted+" -> (later calls) -> EncodeABIData", enc, eerr, k.o.want), k.call)
	}
	if len(vs) > 0 || len(kept) == 0 {
		return vs
	}
	// F1: write into an earlier result; later results and a repeat of the first call are unaffected
	k0 := kept[0]
	for i := range k0.out {
		k0.out[i] ^= 0xFF
	}
	_ = append(k0.out, 0xEE, 0xEE, 0xEE, 0xEE)
	for _, k := range kept[1:] {
		if !bytes.Equal(k.out, k.snap) {
			add(ptr(evid.V("result-not-shared", "writing into the bytes returned by call %d changed the bytes returned by %s", k0.call, k.api)), k.call)
		}
	}
	if len(vs) > 0 {
		return vs
	}
	o0, _ := reference(t, c.Calls[first].Input)
	firstErr := kept[0].err
	again, bad := encode(first, c.Calls[first], o0)
	if !bad {
		for _, k := range again {
			if (k.err == nil) != (firstErr == nil) {
				add(ptr(evid.V("verdict-independent-of-history", "%s: first time error=%v, the same input after %d other calls error=%v", k.api, firstErr, len(c.Calls)-1, k.err)), first)
			}
		}
	}
	return vs
}

func ptr(v evid.Violation) *evid.Violation { return &v }

// ---------------------------------------------------------------- shared

// SharedCase: Workers goroutines encode Calls through ONE freshly validated definition.
type SharedCase struct {
	Params        string `json:"params"`
	InternalTypes bool   `json:"internalTypes,omitempty"`
	Fn            string `json:"fn,omitempty"`
	Calls         []Call `json:"calls"`
	Workers       int    `json:"workers"`
	Rounds        int    `json:"rounds"`
}

func judgeShared(c SharedCase) (vs []evid.Violation) {
	ec := EncodeCase{Params: c.Params, InternalTypes: c.InternalTypes}
	t, _, err := parseParams(ec)
	if err != nil {
		return []evid.Violation{evid.V("harness", "bad case: %v", err)}
	}
	if t.HasZeroSizeArrayElem() {
		return nil
	}
	type prepared struct {
		o    *owed
		txt  []byte
		call Call
	}
	var preps []prepared
	for _, call := range c.Calls {
		o, err := reference(t, call.Input)
		if err != nil {
			return []evid.Violation{evid.V("harness", "%v", err)}
		}
		if o.r.v == vUnspec {
			continue
		}
		p := prepared{o: o, call: call}
		if call.Mode == "json" {
			if p.txt, err = call.Input.JSON(); err != nil {
				return []evid.Violation{evid.V("harness", "bad case: %v", err)}
			}
		}
		preps = append(preps, p)
	}
	if len(preps) == 0 {
		return nil
	}
	var sel []byte
	if c.Fn != "" {
		sel = abiref.Selector(abiref.Signature(c.Fn, t))
	}
	fresh := func() (abi.ParameterArray, *abi.Entry, error) {
		_, pa, err := parseParams(ec)
		if err != nil {
			return nil, nil, err
		}
		var entry *abi.Entry
		if c.Fn != "" {
			_, pa2, _ := parseParams(ec)
			entry = &abi.Entry{Type: abi.Function, Name: c.Fn, Inputs: pa2}
		}
		return pa, entry, validateAt("param", pa, entry)
	}
	one := func(p *prepared, pa abi.ParameterArray, entry *abi.Entry) *evid.Violation {
		var got, got2 []byte
		var err, err2 error
		api, api2 := "EncodeABIDataJSON", "EncodeCallDataJSON"
		if pv := evid.Guard("no-panic", func() {
			if p.call.Mode == "json" {
				got, err = pa.EncodeABIDataJSON(append([]byte{}, p.txt...))
				if entry != nil {
					got2, err2 = entry.EncodeCallDataJSON(append([]byte{}, p.txt...))
				}
			} else {
				api, api2 = "EncodeABIDataValues", "EncodeCallDataValues"
				got, err = pa.EncodeABIDataValues(p.call.Input.Go())
				if entry != nil {
					got2, err2 = entry.EncodeCallDataValues(p.call.Input.Go())
				}
			}
		}); pv != nil {
			return pv
		}
		if v := p.o.settle(api, got, err, p.o.want); v != nil {
			return v
		}
		if entry != nil {
			var want2 []byte
			if p.o.r.v != vReject {
				want2 = append(append([]byte{}, sel...), p.o.want...)
			}
			return p.o.settle(api2, got2, err2, want2)
		}
		return nil
	}
	// every input alone, on its own fresh definition
	for i := range preps {
		pa, entry, err := fresh()
		if err != nil {
			return []evid.Violation{evid.V("accept-valid", "the library refuses the definition %s: %v", c.Params, err)}
		}
		if v := one(&preps[i], pa, entry); v != nil {
			v.Clause = "sequential:" + v.Clause
			v.Detail = fmt.Sprintf("input %d alone: %s", i, v.Detail)
			return append(vs, *v)
		}
	}
	workers := c.Workers
	if workers < 2 {
		workers = 2
	}
	var mu sync.Mutex
	for round := 0; round < c.Rounds && len(vs) == 0; round++ {
		pa, entry, err := fresh()
		if err != nil {
			return []evid.Violation{evid.V("harness", "%v", err)}
		}
		bar := abilib.NewBarrier(workers)
		var wg sync.WaitGroup
		for w := 0; w < workers; w++ {
			wg.Add(1)
			go func(w int) {
				defer wg.Done()
				bar.Wait()
				// every goroutine takes part in the first use, then walks the inputs from its own start
				for n := 0; n < len(preps); n++ {
					i := (w + n) % len(preps)
					if v := one(&preps[i], pa, entry); v != nil {
						mu.Lock()
						vs = append(vs, evid.V("shared-definition:"+v.Clause, "round %d: %d goroutines use ONE validated definition of %s; input %d is encoded correctly alone but not here: %s", round, workers, clipDecl(c.Params), i, v.Detail))
						mu.Unlock()
						return
					}
				}
			}(w)
		}
		wg.Wait()
	}
	if len(vs) > 1 {
		vs = vs[:1]
	}
	return vs
}

func clipDecl(s string) string {
	if len(s) > 160 {
		return s[:120] + "…" + s[len(s)-30:]
	}
	return s
}

// ---------------------------------------------------------------- generation

func drawCall(rt *rapid.T, label string, ty *abiref.Type, noNegFixed bool, rec *evid.Recorder, allowMutants bool) (Call, string) {
	v := abigen.Value(rt, label+".v", ty)
	if noNegFixed && flipNegativeFixed(ty, &v) {
		rec.Excluded(probeKeyNegFixed)
	}
	goMode := rapid.Bool().Draw(rt, label+".goMode")
	call := Call{Mode: "json"}
	if goMode {
		call.Mode = "go"
		call.Input = abigen.DrawGo(rt, label+".x", ty, v)
	} else {
		call.Input = abigen.DrawJSON(rt, label+".x", ty, v)
	}
	mut := "none"
	if allowMutants && rapid.IntRange(0, 9).Draw(rt, label+".mutate") >= 7 {
		mut = mutate(rt, ty, &call.Input, goMode, noNegFixed)
	}
	return call, mut
}

func genReval(rt *rapid.T, rec *evid.Recorder, noNegFixed bool) (RevalCase, bool, []string) {
	depth := rapid.SampledFrom([]int{1, 2, 2, 3, 3}).Draw(rt, "depth")
	ty := abigen.Params(rt, "t", depth, abigen.Opts{NoEmptyTuple: true})
	if ty.HasZeroSizeArrayElem() {
		rt.Skip("zero-size array element")
	}
	hasNested := false
	for _, s := range abigen.Slots(ty) {
		if s.Depth >= 2 {
			hasNested = true
		}
	}
	if !hasNested && len(ty.Members) > 0 && rapid.IntRange(0, 3).Draw(rt, "wrap") > 0 {
		// make sure there is something below the top level: wrap one parameter into a struct
		i := rapid.IntRange(0, len(ty.Members)-1).Draw(rt, "wrap.i")
		inner := abiref.TupleOf(abiref.Member{Name: "k", Type: ty.Members[i].Type}, abiref.Member{Name: "w", Type: abigen.Elementary(rt, "wrap.e", abigen.Opts{})})
		var w *abiref.Type = inner
		switch rapid.IntRange(0, 3).Draw(rt, "wrap.arr") {
		case 0:
			w = abiref.SliceT(inner)
		case 1:
			w = abiref.ArrayT(inner, 2)
		}
		ty.Members[i].Type = w
		if ty.HasZeroSizeArrayElem() {
			rt.Skip("zero-size array element")
		}
	}
	c := RevalCase{Level: rapid.SampledFrom([]string{"param", "param", "entry", "abi"}).Draw(rt, "level")}
	fn := ""
	if rapid.Bool().Draw(rt, "callData") {
		fn = rapid.SampledFrom([]string{"f", "transfer", "$_x1"}).Draw(rt, "fn")
	}
	internal := rapid.Bool().Draw(rt, "internalTypes")
	cl := []string{"level:" + c.Level}
	nested := false
	cur := ty
	n := rapid.IntRange(1, 3).Draw(rt, "edits")
	for i := 0; i <= n; i++ {
		if i > 0 {
			var next *abiref.Type
			var d int
			var what string
			var ok bool
			if i == n && n >= 2 && rapid.IntRange(0, 3).Draw(rt, "back") == 0 {
				next, d, what, ok = abigen.Clone(ty), 0, "back-to-the-first-definition", true
			} else {
				next, d, what, ok = abigen.EditMember(rt, fmt.Sprintf("edit%d", i), cur, abigen.Opts{})
			}
			if !ok {
				rt.Skip("no edit possible")
			}
			cur = next
			if d >= 2 {
				nested = true
			}
			cl = append(cl, fmt.Sprintf("edit:depth=%d", d))
			for _, w := range strings.Split(what, ",") {
				cl = append(cl, "edit:"+w)
			}
		}
		call, _ := drawCall(rt, fmt.Sprintf("c%d", i), cur, noNegFixed, rec, false)
		c.Steps = append(c.Steps, EncodeCase{Params: cur.Decl(), InternalTypes: internal, Mode: call.Mode, Input: call.Input, Fn: fn})
	}
	return c, nested, cl
}

func genHistory(rt *rapid.T, rec *evid.Recorder, noNegFixed bool) (HistoryCase, bool, []string) {
	depth := rapid.SampledFrom([]int{0, 1, 2, 2, 3}).Draw(rt, "depth")
	ty := abigen.Params(rt, "t", depth, abigen.Opts{})
	if ty.HasZeroSizeArrayElem() {
		rt.Skip("zero-size array element")
	}
	c := HistoryCase{Params: ty.Decl(), InternalTypes: rapid.Bool().Draw(rt, "internalTypes")}
	if rapid.Bool().Draw(rt, "callData") {
		c.Fn = rapid.SampledFrom([]string{"f", "transfer", "$_x1"}).Draw(rt, "fn")
	}
	n := rapid.IntRange(2, 5).Draw(rt, "calls")
	seen := map[string]bool{}
	var cl []string
	for i := 0; i < n; i++ {
		var call Call
		var mut string
		if i > 0 && rapid.IntRange(0, 5).Draw(rt, fmt.Sprintf("repeat%d", i)) == 0 {
			call, mut = c.Calls[rapid.IntRange(0, i-1).Draw(rt, fmt.Sprintf("repeat%d.of", i))], "repeat"
		} else {
			call, mut = drawCall(rt, fmt.Sprintf("c%d", i), ty, noNegFixed, rec, true)
		}
		c.Calls = append(c.Calls, call)
		for _, l := range []string{"call-mode:" + call.Mode, "call-mutation:" + mut} {
			if !seen[l] {
				seen[l] = true
				cl = append(cl, l)
			}
		}
	}
	cl = append(cl, fmt.Sprintf("calls:%d", n))
	nestedDyn, shape := shapeClasses(ty)
	return c, nestedDyn || ty.IsDynamic(), append(cl, shape...)
}

func genShared(rt *rapid.T, rec *evid.Recorder, noNegFixed bool) (SharedCase, bool, []string) {
	var ty *abiref.Type
	cl := []string{}
	wide := rapid.IntRange(0, 2).Draw(rt, "wide") == 0
	if wide {
		ty = abigen.Wide(rt, "w", 100, 700)
		cl = append(cl, "shape:wide-late-dynamic")
	} else {
		ty = abigen.Params(rt, "t", 3, abigen.Opts{Budget: 40, NoEmptyTuple: true})
		if ty.HasZeroSizeArrayElem() {
			rt.Skip("zero-size array element")
		}
	}
	c := SharedCase{Params: ty.Decl(), InternalTypes: rapid.Bool().Draw(rt, "internalTypes"),
		Workers: rapid.SampledFrom([]int{4, 8, 8, 16}).Draw(rt, "workers"), Rounds: rapid.IntRange(4, 12).Draw(rt, "rounds")}
	if rapid.Bool().Draw(rt, "callData") {
		c.Fn = rapid.SampledFrom([]string{"f", "transfer", "$_x1"}).Draw(rt, "fn")
	}
	n := rapid.IntRange(4, 10).Draw(rt, "calls")
	for i := 0; i < n; i++ {
		if wide {
			v := abigen.PatternValue(ty, rapid.Uint64().Draw(rt, fmt.Sprintf("salt%d", i)))
			if noNegFixed {
				flipNegativeFixed(ty, &v)
			}
			mode := "json"
			if i%2 == 1 {
				mode = "go"
			}
			c.Calls = append(c.Calls, Call{Mode: mode, Input: abigen.Canon(ty, v)})
		} else {
			call, _ := drawCall(rt, fmt.Sprintf("c%d", i), ty, noNegFixed, rec, true)
			c.Calls = append(c.Calls, call)
		}
	}
	nestedDyn, shape := shapeClasses(ty)
	cl = append(cl, fmt.Sprintf("workers:%d", c.Workers))
	return c, nestedDyn || wide, append(cl, shape...)
}
