package c20

import "testing"

// Sanity anchors for the schema-consistency analyser (the oracle of kind "schema").
func TestAnalyse(t *testing.T) {
	el := func(extra string) string { return `{"type":"string","details":{"type":"string"` + extra + `}}` }
	arr := func(props string) string {
		return `{"type":"array","details":{"type":"tuple[]"},"items":{"type":"object","properties":{` + props + `}}}`
	}
	cases := []struct{ schema, want string }{
		{`{"type":"integer","details":{"type":"uint256"}}`, ""},
		{`{"oneOf":[{"type":"string"},{"type":"integer"}],"details":{"type":"uint256"}}`, ""},
		{`{"oneOf":[{"type":"string"},{"type":"integer"}],"details":{"type":"address"}}`, ""}, // open reading
		{`{"type":"number","details":{"type":"uint8"}}`, ""},                                  // open reading
		{`{"type":"string","details":{"type":"bytes32"}}`, ""},
		{`{"type":"integer","details":{"type":"bool"}}`, "type-mismatch"},
		{`{"type":"boolean","details":{"type":"uint256"}}`, "type-mismatch"},
		{`{"type":"object","details":{"type":"uint256"}}`, "type-mismatch"},
		{`{"type":"array","details":{"type":"uint256"},"items":{"type":"string"}}`, "type-mismatch"},
		{`{"type":"string","details":{"type":"uint256[]"}}`, "type-mismatch"},
		{`{"type":"integer","details":{"type":"tuple"}}`, "type-mismatch"},
		{`{"type":"object","details":{"type":"tuple[]"}}`, "type-mismatch"},
		{`{"oneOf":[{"type":"string"},{"type":"boolean"}],"details":{"type":"int8"}}`, "type-mismatch"},
		{`{"type":"string","details":{"type":"foobar"}}`, ""}, // not a type the analyser understands
		{`{"type":"array","details":{"type":"uint256[]"}}`, "missing-items"},
		{`{"type":"array","details":{"type":"uint256[]"},"items":null}`, "missing-items"},
		{`{"type":"array","details":{"type":"uint256[]"},"items":true}`, ""}, // present in another form: open
		{`{"type":"array","details":{"type":"string[][]"},"items":{"type":"array"}}`, "missing-items"},
		{`{"type":"array","details":{"type":"string[][]"},"items":{"type":"array","items":{"type":"string"}}}`, ""},
		{arr(`"a":` + el(`,"index":0`)), ""},
		{arr(`"a":` + el(``)), "missing-position"},
		{arr(`"a":{"type":"string"}`), "missing-position"},
		{arr(`"a":true`), "missing-position"},
		{arr(`"a":` + el(`,"index":"0"`)), "missing-position"},
		{arr(`"a":` + el(`,"index":0.5`)), "missing-position"},
		{arr(`"a":` + el(`,"index":1.0`)), ""}, // integer to JSON Schema: open
		{arr(`"a":` + el(`,"index":1`)), "out-of-range-position"},
		{arr(`"a":` + el(`,"index":-1`)), "out-of-range-position"},
		{arr(`"a":` + el(`,"index":18446744073709551616`)), "out-of-range-position"},
		{arr(`"a":` + el(`,"index":0`) + `,"b":` + el(`,"index":0`)), "colliding-position"},
		{arr(`"a":` + el(`,"index":1`) + `,"b":` + el(`,"index":0`)), ""},
		{arr(`"a":` + el(`,"INDEX":0`)), ""}, // case-variant key: open
		{`{"type":"object","details":{"type":"tuple"},"properties":{"t":{"type":"array","details":{"type":"tuple[2]","index":0},"items":{"type":"object","properties":{"x":` + el(`,"index":3`) + `}}}}}`, "out-of-range-position"},
		{`{"type":"object","details":{"type":"tuple"},"properties":{"t":{"type":"array","details":{"type":"bool[]","index":0}}}}`, "missing-items"},
		{`[]`, ""}, {`true`, ""}, {`{}`, ""}, {`{"details":5}`, ""},
	}
	for _, c := range cases {
		tree, ok := parseJSON(c.schema)
		if !ok {
			t.Fatalf("bad test JSON %s", c.schema)
		}
		got := ""
		if f := analyse(tree); f != nil {
			got = f.class
		}
		if got != c.want {
			t.Errorf("%s: analyser says %q, want %q", c.schema, got, c.want)
		}
	}
}

// Sanity anchors for schemaFinding (what counts as "no usable schema at all").
func TestSchemaFinding(t *testing.T) {
	cases := []struct {
		absent     bool
		text, want string
	}{
		{true, "", "no-schema"}, {true, `{"type":"string","details":{"type":"string"}}`, "no-schema"},
		{false, "", "no-schema"}, {false, " \n", "no-schema"},
		{false, "null", "not-an-object"}, {false, "1", "not-an-object"}, {false, `"x"`, "not-an-object"}, {false, "[]", "not-an-object"}, {false, "true", "not-an-object"},
		{false, "{", "not-json"}, {false, "nil", "not-json"}, {false, `{"type":"string","details":{"type":"string"}} x`, "not-json"},
		{false, "{}", ""}, {false, `{"type":"string","details":{"type":"string"}}`, ""}, {false, ` {"type":"array","details":{"type":"uint8[]"}} `, "missing-items"},
	}
	for _, c := range cases {
		got := ""
		if f := schemaFinding(c.absent, c.text); f != nil {
			got = f.class
		}
		if got != c.want {
			t.Errorf("absent=%v %q: %q, want %q", c.absent, c.text, got, c.want)
		}
	}
}
