package c20

import (
	"context"
	"encoding/json"
	"fmt"
	"strings"
	"unicode/utf8"

	"github.com/hyperledger/firefly-common/pkg/fftypes"
	"github.com/hyperledger/firefly-signer/pkg/abi"
	"github.com/hyperledger/firefly-signer/pkg/ffi2abi"
	"pgregory.net/rapid"

	"verifharness/evid"
)

// ---------------------------------------------------------------------------------------------
// How a definition reaches the converters.  A parameter is a name and a schema; the schema can
// be missing altogether (FFIParam.Schema is a pointer).  A definition is either built in Go or
// written as a JSON document and decoded by encoding/json into the fftypes type (the way the
// definitions of an interface arrive over an API: `"schema": null` and a parameter object
// without a "schema" member both leave the pointer nil).
// ---------------------------------------------------------------------------------------------

type paramSpec struct {
	name    string
	text    string
	absent  bool // no schema at all
	nullKey bool // document form only: spelled "schema": null instead of leaving the member out
}

func (p paramSpec) ffi() *fftypes.FFIParam {
	if p.absent {
		return &fftypes.FFIParam{Name: p.name}
	}
	return &fftypes.FFIParam{Name: p.name, Schema: fftypes.JSONAnyPtr(p.text)}
}

func (p paramSpec) doc() (string, bool) {
	if !utf8.ValidString(p.name) {
		return "", false // a JSON string cannot carry the name verbatim
	}
	nm := marshal(p.name)
	switch {
	case p.absent && p.nullKey:
		return `{"name":` + nm + `,"schema":null}`, true
	case p.absent:
		return `{"name":` + nm + `}`, true
	}
	if !json.Valid([]byte(p.text)) {
		return "", false
	}
	return `{"name":` + nm + `,"schema":` + p.text + `}`, true
}

type defSpec struct {
	target    string // method | event | error
	viaDoc    bool
	params    []paramSpec
	returns   []paramSpec // methods only
	anonymous bool        // events only: details.anonymous
	omitEmpty bool        // an empty parameter list is left out (nil list / no member in the document)
}

func (d defSpec) document() (string, bool) {
	list := func(ps []paramSpec) (string, bool) {
		parts := make([]string, len(ps))
		for i, p := range ps {
			t, ok := p.doc()
			if !ok {
				return "", false
			}
			parts[i] = t
		}
		return "[" + strings.Join(parts, ",") + "]", true
	}
	members := []string{`"name":"m"`}
	add := func(key string, ps []paramSpec) bool {
		if len(ps) == 0 && d.omitEmpty {
			return true
		}
		t, ok := list(ps)
		if ok {
			members = append(members, `"`+key+`":`+t)
		}
		return ok
	}
	if !add("params", d.params) {
		return "", false
	}
	if d.target == "method" && !add("returns", d.returns) {
		return "", false
	}
	if d.target == "event" && d.anonymous {
		members = append(members, `"details":{"anonymous":true}`)
	}
	return "{" + strings.Join(members, ",") + "}", true
}

// convert runs the converter of the target; ok=false when the document form cannot carry the definition.
func (d defSpec) convert() (entry *abi.Entry, err error, ok bool) {
	ctx := context.Background()
	var method fftypes.FFIMethod
	var event fftypes.FFIEventDefinition
	var errDef fftypes.FFIErrorDefinition
	if d.viaDoc {
		doc, ok := d.document()
		if !ok {
			return nil, nil, false
		}
		var into interface{} = &method
		switch d.target {
		case "event":
			into = &event
		case "error":
			into = &errDef
		}
		if uerr := json.Unmarshal([]byte(doc), into); uerr != nil {
			return nil, nil, false
		}
	} else {
		list := func(ps []paramSpec) fftypes.FFIParams {
			if len(ps) == 0 && d.omitEmpty {
				return nil
			}
			out := make(fftypes.FFIParams, len(ps))
			for i, p := range ps {
				out[i] = p.ffi()
			}
			return out
		}
		method = fftypes.FFIMethod{Name: "m", Params: list(d.params), Returns: list(d.returns)}
		event = fftypes.FFIEventDefinition{Name: "m", Params: list(d.params)}
		if d.anonymous {
			event.Details = fftypes.JSONObject{"anonymous": true}
		}
		errDef = fftypes.FFIErrorDefinition{Name: "m", Params: list(d.params)}
	}
	switch d.target {
	case "event":
		entry, err = ffi2abi.ConvertFFIEventDefinitionToABI(ctx, &event)
	case "error":
		entry, err = ffi2abi.ConvertFFIErrorDefinitionToABI(ctx, &errDef)
	default:
		entry, err = ffi2abi.ConvertFFIMethodToABI(ctx, &method)
	}
	return entry, err, true
}

// ---------------------------------------------------------------------------------------------
// kind "def": a WHOLE definition (method with parameters and return values, event, error) with
// several parameters.  Each parameter either carries the well-formed interface-format schema of
// a generated parameter (Model; the schema is built by schemaFor, independently of the library's
// ABI -> FFI direction) or a schema text / no schema at all.
//
//   - never a panic;
//   - one parameter whose schema is provably no good (absent, null, empty, not JSON, not an object,
//     or inconsistent in the ways analyse() proves), AT ANY POSITION of either list => error;
//   - every parameter well-formed (and, for an event, no more indexed parameters than its kind
//     of event has topics for) => accepted, and the entry has exactly the modelled parameters:
//     names verbatim (unnamed stays unnamed), types, nesting, indexed flags, signature;
//   - accepted in any case => one parameter per given parameter, in order, under the given names;
//     the parameters given as models equal their models; the entry validates.
// ---------------------------------------------------------------------------------------------

type DefParam struct {
	Name   string `json:"name"`
	Model  *T     `json:"model,omitempty"`  // the schema is schemaFor(model); the model's own name is ignored in favour of Name
	Schema string `json:"schema,omitempty"` // otherwise: the schema text ("hex:<hex>" if not UTF-8)
	Form   string `json:"form,omitempty"`   // otherwise: "" text | "nil" no schema | "null" no schema, spelled "schema": null in a document
}

type DefCase struct {
	Target    string     `json:"target"` // method | event | error
	Via       string     `json:"via"`    // struct | doc
	Params    []DefParam `json:"params"`
	Returns   []DefParam `json:"returns,omitempty"`
	Anonymous bool       `json:"anonymous,omitempty"`
	OmitEmpty bool       `json:"omitEmpty,omitempty"`
}

func (p DefParam) model() (T, bool) {
	if p.Model == nil {
		return T{}, false
	}
	m := *p.Model
	m.Name = decStr(p.Name)
	return m, true
}

func (p DefParam) spec() paramSpec {
	if m, ok := p.model(); ok {
		return paramSpec{name: m.Name, text: marshal(schemaFor(m, nil))}
	}
	return paramSpec{name: decStr(p.Name), text: decStr(p.Schema), absent: p.Form == "nil" || p.Form == "null", nullKey: p.Form == "null"}
}

func judgeDef(c DefCase) (vs []evid.Violation) {
	d := defSpec{target: c.Target, viaDoc: c.Via == "doc", anonymous: c.Anonymous && c.Target == "event", omitEmpty: c.OmitEmpty}
	returns := c.Returns
	if c.Target != "method" {
		returns = nil
	}
	allModel := true
	var bad *finding
	var badWhere string
	var inModels []T
	look := func(list string, ps []DefParam) (specs []paramSpec) {
		for i, p := range ps {
			sp := p.spec()
			specs = append(specs, sp)
			if m, ok := p.model(); ok {
				if list == "params" {
					inModels = append(inModels, m)
				}
				continue
			}
			allModel = false
			if f := schemaFinding(sp.absent, sp.text); f != nil && bad == nil {
				bad, badWhere = f, fmt.Sprintf("%s[%d] %q of %d", list, i, sp.name, len(ps))
			}
		}
		return specs
	}
	d.params = look("params", c.Params)
	d.returns = look("returns", returns)

	var entry *abi.Entry
	var err error
	representable := true
	if pv := evid.Guard("def-no-panic", func() { entry, err, representable = d.convert() }); pv != nil {
		pv.Detail = fmt.Sprintf("%s definition (%s) with %d + %d parameters: %s", c.Target, c.Via, len(d.params), len(d.returns), pv.Detail)
		return append(vs, *pv)
	}
	if !representable {
		return nil
	}
	mustAccept := allModel
	if c.Target == "event" {
		n := 0
		for _, p := range c.Params {
			if p.Model != nil && p.Model.Indexed {
				n++
			}
		}
		if n > maxIndexed(d.anonymous) {
			mustAccept = false // more indexed parameters than such an event has topics: nothing is claimed
		}
	}
	if err != nil {
		if mustAccept {
			vs = append(vs, evid.V("well-formed-definition-accepted", "%s definition (anonymous=%v) whose %d + %d parameters all carry well-formed schemas is rejected: %v", c.Target, d.anonymous, len(d.params), len(d.returns), err))
		}
		return vs
	}
	if bad != nil {
		vs = append(vs, evid.V("inconsistent-schema-is-error", "%s definition: parameter %s has no usable schema (%s: %s) but the conversion succeeds", c.Target, badWhere, bad.class, bad.detail))
	}
	if entry == nil {
		return append(vs, evid.V("result-well-formed", "nil entry with nil error"))
	}
	if holes(entry.Inputs) || holes(entry.Outputs) {
		return append(vs, evid.V("result-well-formed", "converted entry contains a nil parameter"))
	}
	if entry.Name != "m" || string(entry.Type) != map[string]string{"method": "function", "event": "event", "error": "error"}[c.Target] {
		vs = append(vs, evid.V("result-well-formed", "%s definition \"m\" is converted to %s %q", c.Target, entry.Type, entry.Name))
	}
	cmp := func(list string, got abi.ParameterArray, ps []DefParam, specs []paramSpec) {
		if len(got) != len(ps) {
			vs = append(vs, evid.V("parameter-list-preserved", "%s: %d parameters given, %d converted", list, len(ps), len(got)))
			return
		}
		for i, p := range ps {
			if got[i].Name != specs[i].name {
				vs = append(vs, evid.V("name-preserved", "%s[%d]: parameter %q comes back as %q", list, i, specs[i].name, got[i].Name))
				return
			}
			if m, ok := p.model(); ok {
				if diff := diffParams(abi.ParameterArray{got[i]}, []T{m}, fmt.Sprintf("%s[%d]", list, i)); diff != "" {
					vs = append(vs, evid.V("entry-matches-schemas", "%s definition: %s", c.Target, diff))
					return
				}
			}
		}
	}
	cmp("params", entry.Inputs, c.Params, d.params)
	cmp("returns", entry.Outputs, returns, d.returns)
	if pv := evid.Guard("result-well-formed", func() {
		if verr := entry.Validate(); verr != nil {
			vs = append(vs, evid.V("result-well-formed", "conversion succeeds but the entry does not validate: %v", verr))
		}
		sig, serr := entry.Signature()
		helper := ffi2abi.ABIMethodToSignature(entry)
		if allModel && len(vs) == 0 {
			want := refSignature(E{Name: "m", Inputs: inModels})
			if serr != nil || sig != want {
				vs = append(vs, evid.V("round-trip-signature", "signature of the converted entry is %q (%v), the modelled parameters spell %q", sig, serr, want))
			}
			if helper != want {
				vs = append(vs, evid.V("helper-signature", "ABIMethodToSignature = %q, the modelled parameters spell %q", helper, want))
			}
		}
	}); pv != nil {
		vs = append(vs, *pv)
	}
	return vs
}

// notSchemas: texts that are not parameter schemas whatever else may be open: nothing, white
// space, JSON values that are not objects.
var notSchemas = []string{"", " ", "\n", "null", " null ", "0", "1", "-1", "1.5", "1e3", `""`, `"x"`, `"string"`, `"uint256"`, "[]", "[{}]",
	`[{"type":"string","details":{"type":"string"}}]`, "true", "false"}

// notJSON: texts that are not JSON at all (cannot travel inside a document).
var notJSON = []string{"{", "}", "{]", `{"type":`, "nul", "nil", "undefined", `{'type':'string'}`, `{"type":"string","details":{"type":"string"}} x`,
	`{"type":"string","details":{"type":"string"}}{}`, "\x00", "\xff\xfe", "// c\n{}", `{"a":1,}`}

func hasIndexedMember(t T) bool {
	for _, c := range t.Components {
		if c.Indexed || hasIndexedMember(c) {
			return true
		}
	}
	return false
}

func genDef(rt *rapid.T) (DefCase, bool, []string) {
	c := DefCase{
		Target: rapid.SampledFrom([]string{"method", "method", "event", "event", "error"}).Draw(rt, "def.target"),
		Via:    rapid.SampledFrom([]string{"struct", "doc"}).Draw(rt, "def.via"),
	}
	c.OmitEmpty = rapid.Bool().Draw(rt, "def.omitEmpty")
	nestedIdx := false
	models := func(label string, n, depth int) []DefParam {
		ts := genParamsN(rt, label, n, depth)
		pct := 15
		if c.Target == "event" {
			pct = 45
		}
		markMembersIndexed(rt, label, ts, pct)
		if c.Target != "event" && len(ts) > 0 && rare(rt, label+".topidx", 60) {
			ts[rapid.IntRange(0, len(ts)-1).Draw(rt, label+".topidx.at")].Indexed = true
		}
		for i := range ts {
			if hasIndexedMember(ts[i]) {
				nestedIdx = true
			}
		}
		out := make([]DefParam, len(ts))
		for i := range ts {
			t := ts[i]
			out[i] = DefParam{Name: encStr(t.Name), Model: &t}
		}
		return out
	}
	var cl []string
	switch c.Target {
	case "method":
		c.Params = models("def.in", rapid.SampledFrom([]int{0, 1, 2, 2, 3, 4}).Draw(rt, "def.in.n"), 2)
		c.Returns = models("def.out", rapid.SampledFrom([]int{0, 0, 1, 2, 3}).Draw(rt, "def.out.n"), 2)
	case "event":
		c.Anonymous = rapid.IntRange(0, 2).Draw(rt, "def.anon") == 1
		c.Params = models("def.in", rapid.SampledFrom([]int{1, 2, 3, 4, 4, 5, 6}).Draw(rt, "def.in.n"), 2)
		ts := make([]T, len(c.Params))
		markIndexed(rt, "def", ts, c.Anonymous)
		n := 0
		for i := range ts {
			c.Params[i].Model.Indexed = ts[i].Indexed
			if ts[i].Indexed {
				n++
			}
		}
		if c.Anonymous {
			cl = append(cl, "def:event:anonymous")
		}
		if n == maxIndexed(c.Anonymous) {
			cl = append(cl, fmt.Sprintf("def:event:anonymous=%v-with-%d-indexed", c.Anonymous, n))
		}
	default:
		c.Params = models("def.in", rapid.SampledFrom([]int{0, 1, 2, 3, 4}).Draw(rt, "def.in.n"), 2)
	}
	total := len(c.Params) + len(c.Returns)
	cl = append(cl, "def:target:"+c.Target)
	if nestedIdx {
		cl = append(cl, "def:indexed-tuple-member", "def:indexed-tuple-member:"+c.Target)
	}
	if total == 0 || rapid.IntRange(0, 9).Draw(rt, "def.mode") < 3 {
		return c, total >= 2, append(cl, "def:via-"+c.Via, "def:all-parameters-well-formed")
	}
	// one parameter (any position of either list) gets another schema
	at := rapid.IntRange(0, total-1).Draw(rt, "def.bad.at")
	victim := &c.Params
	list := "params"
	if at >= len(c.Params) {
		victim, at, list = &c.Returns, at-len(c.Params), "returns"
	}
	p := &(*victim)[at]
	how := rapid.SampledFrom([]string{"nil", "nil", "null", "not-a-schema", "not-a-schema", "not-json", "empty-object", "mutant", "mutant"}).Draw(rt, "def.bad.how")
	if how == "not-json" && c.Via == "doc" {
		how = "null"
	}
	switch how {
	case "nil", "null":
		*p = DefParam{Name: p.Name, Form: how}
	case "not-a-schema":
		*p = DefParam{Name: p.Name, Schema: rapid.SampledFrom(notSchemas).Draw(rt, "def.bad.text")}
	case "not-json":
		*p = DefParam{Name: p.Name, Schema: encStr(rapid.SampledFrom(notJSON).Draw(rt, "def.bad.text"))}
	case "empty-object":
		*p = DefParam{Name: p.Name, Schema: rapid.SampledFrom([]string{"{}", `{"type":"string"}`, `{"details":{}}`, `{"details":null,"type":"string"}`}).Draw(rt, "def.bad.text")}
	default:
		m, _ := p.model()
		root := schemaFor(m, nil)
		op := "none"
		for try := 0; try < 4 && op == "none"; try++ {
			op = mutateSchema(rt, root, fmt.Sprintf("def.mut%d", try))
		}
		*p = DefParam{Name: p.Name, Schema: encStr(marshal(root))}
		how = "mutant:" + op
	}
	if sp := p.spec(); c.Via == "doc" && !sp.absent && !json.Valid([]byte(sp.text)) {
		c.Via = "struct" // a document cannot carry a text that is not JSON
	}
	cl = append(cl, "def:via-"+c.Via, "def:one-parameter:"+how, "def:other-schema-in-"+list)
	if at > 0 || list == "returns" {
		cl = append(cl, "def:other-schema-not-in-first-place")
	}
	if sp := p.spec(); schemaFinding(sp.absent, sp.text) != nil {
		cl = append(cl, "def:must-be-error")
	}
	return c, total >= 2, cl
}
