// Package c20 decides property C20 (ABI <-> FFI conversion preserves signatures
// and is total on arbitrary schemas).
//
// Two kinds of case:
//
//	"abi"     a generated ABI -> ConvertABIToFFI -> every method/event/error converted back;
//	          oracle: the signature rendered independently from the generated type tree, and a
//	          structural walk of names / types / nesting / indexed flags against the generated tree.
//	"schema"  one FFI parameter schema (mutated from a well-formed one, or arbitrary JSON / text)
//	          handed to ConvertFFIMethodToABI / ConvertFFIEventDefinitionToABI /
//	          ConvertFFIErrorDefinitionToABI; oracle: never panics, and a schema that the package's
//	          own consistency analyser (analyse, written from the property text over generic JSON)
//	          proves inconsistent must be reported as an error.
package c20

import (
	"bytes"
	"context"
	"encoding/hex"
	"encoding/json"
	"fmt"
	"math"
	"net/url"
	"regexp"
	"sort"
	"strings"
	"testing"
	"unicode/utf8"

	"github.com/hyperledger/firefly-common/pkg/fftypes"
	"github.com/hyperledger/firefly-signer/pkg/abi"
	"github.com/hyperledger/firefly-signer/pkg/ffi2abi"
	"pgregory.net/rapid"

	"verifharness/evid"
	"verifharness/ref/typeref"
)

const rule = "abi: the ABI contains a tuple nested in a tuple, or a tuple inside an array of >= 2 dimensions; " +
	"schema: a mutated or arbitrary parameter schema that still passes the FFI meta-schema (so the conversion code behind the validation is reached); " +
	"def: a whole definition with two or more parameters (all well-formed, or one of them - at any position - without a usable schema); " +
	"convseq: a history in which a name was converted before under another schema or a $ref names a parameter converted earlier; shared: as abi; every concurrent batch; distinct by hash of the case"

// ---------------------------------------------------------------------------
// ABI model of the cases (field names = JSON ABI, so a case is an ABI document)

type T struct {
	Name         string `json:"name"`
	Type         string `json:"type"`
	InternalType string `json:"internalType,omitempty"`
	Indexed      bool   `json:"indexed,omitempty"`
	Components   []T    `json:"components,omitempty"`
}

// MarshalJSON keeps the difference between a tuple whose member list is PRESENT BUT EMPTY
// ("components": []) and one whose member list is absent: both are member-less tuples, and
// both spellings occur in ABI documents.
func (t T) MarshalJSON() ([]byte, error) {
	type plain T
	if t.Components != nil && len(t.Components) == 0 {
		return json.Marshal(struct {
			plain
			Components []T `json:"components"`
		}{plain(t), []T{}})
	}
	return json.Marshal(plain(t))
}

type E struct {
	Type            string `json:"type"`
	Name            string `json:"name,omitempty"`
	Inputs          []T    `json:"inputs"`
	Outputs         []T    `json:"outputs,omitempty"`
	StateMutability string `json:"stateMutability,omitempty"`
	Payable         bool   `json:"payable,omitempty"`
	Constant        bool   `json:"constant,omitempty"`
	Anonymous       bool   `json:"anonymous,omitempty"`
}

type ABICase struct {
	ABI []E `json:"abi"`
}

var ethTypeRe = regexp.MustCompile(`^([a-z]+[0-9x]*)((?:\[[0-9]*\])*)$`)

// splitEth splits "tuple[2][]" into "tuple", 2 dimensions.
func splitEth(s string) (base string, ndims int, ok bool) {
	m := ethTypeRe.FindStringSubmatch(s)
	if m == nil {
		return "", 0, false
	}
	return m[1], strings.Count(m[2], "["), true
}

// refType renders the signature spelling of a parameter from the generated tree.
// The generator only uses explicit-width spellings, so the canonical spelling of an
// elementary type is its type string; a tuple is the parenthesised list of its members.
func refType(t T) string {
	if strings.HasPrefix(t.Type, "tuple") {
		parts := make([]string, len(t.Components))
		for i, c := range t.Components {
			parts[i] = refType(c)
		}
		return "(" + strings.Join(parts, ",") + ")" + t.Type[len("tuple"):]
	}
	return t.Type
}

func refSignature(e E) string {
	parts := make([]string, len(e.Inputs))
	for i, p := range e.Inputs {
		parts[i] = refType(p)
	}
	return e.Name + "(" + strings.Join(parts, ",") + ")"
}

// diffParams walks converted-back parameters against the generated tree.
func diffParams(got abi.ParameterArray, want []T, path string) string {
	if len(got) != len(want) {
		return fmt.Sprintf("%s: %d parameters, want %d", path, len(got), len(want))
	}
	for i, w := range want {
		g := got[i]
		here := fmt.Sprintf("%s[%d]", path, i)
		if g == nil {
			return here + ": nil parameter"
		}
		if g.Name != w.Name {
			return fmt.Sprintf("%s: name %q, want %q", here, g.Name, w.Name)
		}
		if g.Type != w.Type {
			return fmt.Sprintf("%s (%s): type %q, want %q", here, w.Name, g.Type, w.Type)
		}
		if g.Indexed != w.Indexed {
			return fmt.Sprintf("%s (%s): indexed %v, want %v", here, w.Name, g.Indexed, w.Indexed)
		}
		if d := diffParams(g.Components, w.Components, here+"."+w.Name); d != "" {
			return d
		}
	}
	return ""
}

func judgeABI(c ABICase) (vs []evid.Violation) {
	raw, err := json.Marshal(c.ABI)
	if err != nil {
		return []evid.Violation{evid.V("harness", "marshal: %v", err)}
	}
	load := func() abi.ABI {
		var a abi.ABI
		if err := json.Unmarshal(raw, &a); err != nil {
			panic("harness: ABI JSON does not load: " + err.Error())
		}
		return a
	}
	ctx := context.Background()
	a := load()
	var ffi *fftypes.FFI
	if pv := evid.Guard("abi-to-ffi-no-panic", func() { ffi, err = ffi2abi.ConvertABIToFFI(ctx, "ns", "name", "v1", "generated", &a) }); pv != nil {
		return append(vs, *pv)
	}
	if err != nil || ffi == nil {
		return append(vs, evid.V("abi-to-ffi", "a valid ABI is rejected by ConvertABIToFFI: %v", err))
	}
	methods := map[string][]*fftypes.FFIMethod{}
	for _, m := range ffi.Methods {
		if m != nil {
			methods[m.Name] = append(methods[m.Name], m)
		}
	}
	events := map[string][]*fftypes.FFIEvent{}
	for _, ev := range ffi.Events {
		if ev != nil {
			events[ev.Name] = append(events[ev.Name], ev)
		}
	}
	errs := map[string][]*fftypes.FFIError{}
	for _, er := range ffi.Errors {
		if er != nil {
			errs[er.Name] = append(errs[er.Name], er)
		}
	}
	var nf, ne, nr int
	fresh := load()
	for i, e := range c.ABI {
		want := refSignature(e)
		// the original entry: its own signature and the stand-alone helper
		var own, helper string
		var ownErr error
		if pv := evid.Guard("signature-no-panic", func() {
			own, ownErr = fresh[i].Signature()
			helper = ffi2abi.ABIMethodToSignature(fresh[i])
		}); pv != nil {
			return append(vs, *pv)
		}
		if ownErr != nil || own != want {
			vs = append(vs, evid.V("entry-signature", "entry %s %q: Signature() = %q (%v), generated tree spells %q", e.Type, e.Name, own, ownErr, want))
		}
		if helper != own || helper != want {
			vs = append(vs, evid.V("helper-signature", "entry %s: ABIMethodToSignature = %q but Signature() = %q", e.Type, helper, own))
		}
		var back *abi.Entry
		var berr error
		switch e.Type {
		case "function":
			nf++
			if len(methods[e.Name]) != 1 {
				vs = append(vs, evid.V("ffi-entries", "function %q appears %d times among the FFI methods", e.Name, len(methods[e.Name])))
				continue
			}
			if pv := evid.Guard("ffi-to-abi-no-panic", func() { back, berr = ffi2abi.ConvertFFIMethodToABI(ctx, methods[e.Name][0]) }); pv != nil {
				vs = append(vs, *pv)
				continue
			}
		case "event":
			ne++
			if len(events[e.Name]) != 1 {
				vs = append(vs, evid.V("ffi-entries", "event %q appears %d times among the FFI events", e.Name, len(events[e.Name])))
				continue
			}
			if pv := evid.Guard("ffi-to-abi-no-panic", func() {
				back, berr = ffi2abi.ConvertFFIEventDefinitionToABI(ctx, &events[e.Name][0].FFIEventDefinition)
			}); pv != nil {
				vs = append(vs, *pv)
				continue
			}
		case "error":
			nr++
			if len(errs[e.Name]) != 1 {
				vs = append(vs, evid.V("ffi-entries", "error %q appears %d times among the FFI errors", e.Name, len(errs[e.Name])))
				continue
			}
			if pv := evid.Guard("ffi-to-abi-no-panic", func() {
				back, berr = ffi2abi.ConvertFFIErrorDefinitionToABI(ctx, &errs[e.Name][0].FFIErrorDefinition)
			}); pv != nil {
				vs = append(vs, *pv)
				continue
			}
		default:
			continue // constructor: not part of the interface format
		}
		if berr != nil || back == nil {
			vs = append(vs, evid.V("round-trip-accepted", "%s %q: converting the generated FFI definition back fails: %v", e.Type, e.Name, berr))
			continue
		}
		if back.Name != e.Name || string(back.Type) != e.Type {
			vs = append(vs, evid.V("round-trip-entry", "%s %q comes back as %s %q", e.Type, e.Name, back.Type, back.Name))
		}
		var bsig, bhelper string
		var bsigErr error
		if pv := evid.Guard("signature-no-panic", func() {
			bsig, bsigErr = back.Signature()
			bhelper = ffi2abi.ABIMethodToSignature(back)
		}); pv != nil {
			vs = append(vs, *pv)
			continue
		}
		if bsigErr != nil || bsig != want {
			vs = append(vs, evid.V("round-trip-signature", "%s %q: signature after the round trip is %q (%v), want %q", e.Type, e.Name, bsig, bsigErr, want))
		}
		if bhelper != bsig {
			vs = append(vs, evid.V("helper-signature", "%s %q after the round trip: ABIMethodToSignature = %q but Signature() = %q", e.Type, e.Name, bhelper, bsig))
		}
		if d := diffParams(back.Inputs, e.Inputs, "inputs"); d != "" {
			vs = append(vs, evid.V("round-trip-parameters", "%s %q: %s", e.Type, e.Name, d))
		}
		if e.Type == "function" {
			if d := diffParams(back.Outputs, e.Outputs, "outputs"); d != "" {
				vs = append(vs, evid.V("round-trip-parameters", "%s %q: %s", e.Type, e.Name, d))
			}
		}
	}
	if len(ffi.Methods) != nf || len(ffi.Events) != ne || len(ffi.Errors) != nr {
		vs = append(vs, evid.V("ffi-entries", "FFI has %d methods / %d events / %d errors, the ABI has %d / %d / %d",
			len(ffi.Methods), len(ffi.Events), len(ffi.Errors), nf, ne, nr))
	}
	return vs
}

// ---------------------------------------------------------------------------
// schema cases

type SchemaCase struct {
	Target string `json:"target"` // method-param | method-return | event | error
	Name   string `json:"name"`   // parameter name
	Schema string `json:"schema"` // the text handed over as the parameter schema ("hex:<hex>" if not UTF-8)
	// Form says how the schema reaches the converter:
	//   ""            the text, as a *fftypes.JSONAny built in Go
	//   "nil"         the parameter has NO schema: FFIParam.Schema is a nil pointer (the text is not used)
	//   "doc"         the whole definition travels as a JSON document {"name":"m","params":[{"name":..,"schema":<text>}]}
	//                 that encoding/json decodes into the fftypes definition (the way definitions arrive over an API)
	//   "doc-absent"  as doc; the parameter object has no "schema" member
	//   "doc-null"    as doc; "schema": null
	Form string `json:"form,omitempty"`
}

func encStr(s string) string {
	if utf8.ValidString(s) && !strings.HasPrefix(s, "hex:") {
		return s
	}
	return "hex:" + hex.EncodeToString([]byte(s))
}

func decStr(s string) string {
	if strings.HasPrefix(s, "hex:") {
		if b, err := hex.DecodeString(s[4:]); err == nil {
			return string(b)
		}
	}
	return s
}

func asMap(v interface{}) map[string]interface{} {
	m, _ := v.(map[string]interface{})
	return m
}

func parseJSON(text string) (interface{}, bool) {
	dec := json.NewDecoder(strings.NewReader(text))
	dec.UseNumber()
	var v interface{}
	if err := dec.Decode(&v); err != nil {
		return nil, false
	}
	if dec.More() {
		return nil, false
	}
	return v, true
}

type finding struct{ class, detail string }

var elementaryKinds = map[string]string{"uint": "integer", "int": "integer", "fixed": "fixed", "ufixed": "fixed", "bool": "bool", "address": "address",
	"bytes": "bytes", "string": "string", "function": "bytes"}

// ethShape classifies an Ethereum type string: kind is "tuple", "array" or the
// elementary family; ok=false when the string is not a type the analyser understands.
func ethShape(ety string) (base string, ndims int, family string, ok bool) {
	base, ndims, ok = splitEth(ety)
	if !ok {
		return
	}
	if base == "tuple" {
		return base, ndims, "tuple", true
	}
	v, n, _ := typeref.Recognise(typeref.Param{Type: base})
	if v != typeref.Valid {
		return "", 0, "", false
	}
	return base, ndims, elementaryKinds[n.Base], true
}

// atOdds is true only for definite contradictions between a JSON type and an
// Ethereum type (pairs on which reasonable readings could differ are left open:
// "integer" for address/fixed, "number" for integers).
func atOdds(jsonType string, ndims int, family string) bool {
	isArray := ndims > 0
	isTuple := !isArray && family == "tuple"
	elementary := !isArray && !isTuple
	switch jsonType {
	case "array":
		return !isArray
	case "object":
		return !isTuple
	case "string":
		return !elementary
	case "boolean":
		return !(elementary && family == "bool")
	case "integer":
		return !elementary || family == "bool" || family == "string" || family == "bytes"
	case "number":
		return !elementary || family == "bool" || family == "string" || family == "bytes" || family == "address"
	}
	return false
}

// analyse looks for the inconsistencies the property names, over generic JSON:
// JSON type at odds with the Ethereum type (top level), array schema without
// items, tuple members with missing / colliding / out-of-range positions.
// It returns nil when nothing is provably inconsistent (which includes every
// shape it does not understand).
func analyse(schema interface{}) *finding {
	if hasCaseVariantKey(schema) {
		// Go's JSON decoding matches object keys case-insensitively ("INDEX" fills index); whether such a
		// key counts as present is an open reading, so these schemas are not analysed
		return nil
	}
	m := asMap(schema)
	det := asMap(m["details"])
	ety, ok := det["type"].(string)
	if m == nil || det == nil || !ok {
		return nil
	}
	_, ndims, family, ok := ethShape(ety)
	if !ok {
		return nil
	}
	// the set of JSON types the schema admits
	_, hasOneOf := m["oneOf"]
	_, hasType := m["type"]
	var admitted []string
	switch {
	case hasOneOf && hasType:
		// not analysed
	case hasOneOf:
		arr, _ := m["oneOf"].([]interface{})
		for _, el := range arr {
			ts, ok := asMap(el)["type"].(string)
			if !ok {
				admitted = nil
				break
			}
			admitted = append(admitted, ts)
		}
	case hasType:
		if ts, ok := m["type"].(string); ok {
			admitted = []string{ts}
		}
	}
	for _, jt := range admitted {
		if atOdds(jt, ndims, family) {
			return &finding{"type-mismatch", fmt.Sprintf("JSON type %q for Ethereum type %q", jt, ety)}
		}
	}
	return walk(m, ety, "$")
}

var readKeys = []string{"type", "oneOf", "details", "properties", "items", "description", "internalType", "indexed", "index"}

// hasCaseVariantKey reports whether any object in the tree has a key that equals one of the keys the
// converter reads only under case folding (strings.EqualFold, the rule encoding/json applies).
func hasCaseVariantKey(v interface{}) bool {
	switch vt := v.(type) {
	case map[string]interface{}:
		for k, child := range vt {
			for _, rk := range readKeys {
				if k != rk && strings.EqualFold(k, rk) {
					return true
				}
			}
			if hasCaseVariantKey(child) {
				return true
			}
		}
	case []interface{}:
		for _, child := range vt {
			if hasCaseVariantKey(child) {
				return true
			}
		}
	}
	return false
}

func walk(m map[string]interface{}, ety string, path string) *finding {
	_, ndims, family, ok := ethShape(ety)
	if !ok {
		return nil
	}
	cur := m
	for d := 0; d < ndims; d++ {
		if ts, _ := cur["type"].(string); ts != "array" {
			return nil
		}
		raw, present := cur["items"]
		if !present || raw == nil {
			return &finding{"missing-items", fmt.Sprintf("%s: array schema for %q without items at dimension %d", path, ety, d)}
		}
		im := asMap(raw)
		if im == nil {
			return nil // items present in another form (boolean schema, list): not analysed
		}
		cur = im
		path += ".items"
	}
	if family != "tuple" {
		return nil
	}
	if ts, _ := cur["type"].(string); ts != "object" {
		return nil
	}
	props := asMap(cur["properties"])
	if props == nil {
		return nil
	}
	names := make([]string, 0, len(props))
	for name := range props {
		names = append(names, name)
	}
	sort.Strings(names)
	seen := map[int64]string{}
	for _, name := range names {
		cd := asMap(asMap(props[name])["details"])
		if cd == nil {
			return &finding{"missing-position", fmt.Sprintf("%s.%s: member without details", path, name)}
		}
		num, isNum := cd["index"].(json.Number)
		if !isNum {
			return &finding{"missing-position", fmt.Sprintf("%s.%s: member without an integer index", path, name)}
		}
		if strings.ContainsAny(num.String(), ".eE") {
			if f, ferr := num.Float64(); ferr == nil && f == math.Trunc(f) {
				return nil // 1.0 / 1e0: an integer to JSON Schema; not analysed
			}
			return &finding{"missing-position", fmt.Sprintf("%s.%s: non-integer index %s", path, name, num)}
		}
		idx, err := num.Int64()
		if err != nil {
			return &finding{"out-of-range-position", fmt.Sprintf("%s.%s: index %s", path, name, num)}
		}
		if idx < 0 || idx >= int64(len(props)) {
			return &finding{"out-of-range-position", fmt.Sprintf("%s.%s: index %d with %d members", path, name, idx, len(props))}
		}
		if other, dup := seen[idx]; dup {
			return &finding{"colliding-position", fmt.Sprintf("%s: members %s and %s share index %d", path, other, name, idx)}
		}
		seen[idx] = name
	}
	for _, name := range names {
		cm := asMap(props[name])
		if cty, ok := asMap(cm["details"])["type"].(string); ok {
			if f := walk(cm, cty, path+"."+name); f != nil {
				return f
			}
		}
	}
	return nil
}

// convertOne hands a one-parameter definition to the converter of the target; ok=false when the
// form cannot carry the case (a JSON document cannot hold a text that is not JSON).
func convertOne(target, name, schema, form string) (entry *abi.Entry, err error, ok bool) {
	p := paramSpec{name: name, text: schema}
	d := defSpec{target: target}
	switch form {
	case "nil":
		p.absent = true
	case "doc":
		d.viaDoc = true
	case "doc-absent":
		d.viaDoc, p.absent = true, true
	case "doc-null":
		d.viaDoc, p.absent, p.nullKey = true, true, true
	}
	d.params = []paramSpec{p}
	switch target {
	case "method-return":
		d.target, d.params, d.returns = "method", nil, []paramSpec{p}
	case "method-param":
		d.target = "method"
	}
	return d.convert()
}

func holes(pa abi.ParameterArray) bool {
	for _, p := range pa {
		if p == nil || holes(p.Components) {
			return true
		}
	}
	return false
}

func short(s string) string {
	if len(s) > 400 {
		return s[:400] + "…"
	}
	return s
}

type schemaOutcome struct {
	vs       []evid.Violation
	accepted bool
	finding  *finding
	entry    *abi.Entry // the converted entry when accepted
	vacuous  bool       // the form cannot carry this schema (a text that is not JSON inside a JSON document): nothing was converted
}

func judgeSchemaText(target, name, schema string) (o schemaOutcome) {
	return judgeSchemaForm(target, name, schema, "")
}

// schemaFinding: what is provably wrong with the schema of ONE parameter.  Before the
// inconsistencies analyse() looks for comes the plainest one: there is no schema at all (absent,
// null, empty text), the text is not JSON, or it is a JSON value other than an object - none of
// these can say which Ethereum type the parameter has, so no conversion of it can be right.
func schemaFinding(absent bool, text string) *finding {
	if absent {
		return &finding{"no-schema", "the parameter has no schema (absent or null)"}
	}
	if strings.TrimSpace(text) == "" {
		return &finding{"no-schema", "the schema text is empty"}
	}
	if !json.Valid([]byte(text)) {
		return &finding{"not-json", "the schema text is not JSON"}
	}
	tree, ok := parseJSON(text)
	if !ok {
		return nil
	}
	if _, isObject := tree.(map[string]interface{}); !isObject {
		return &finding{"not-an-object", "the schema is a JSON value that is not an object"}
	}
	return analyse(tree)
}

func judgeSchemaForm(target, name, schema, form string) (o schemaOutcome) {
	var entry *abi.Entry
	var err error
	representable := true
	if pv := evid.Guard("schema-no-panic", func() { entry, err, representable = convertOne(target, name, schema, form) }); pv != nil {
		pv.Detail = fmt.Sprintf("%s schema %s (form %q): %s", target, short(schema), form, pv.Detail)
		o.vs = append(o.vs, *pv)
		return o
	}
	if !representable {
		o.vacuous = true
		return o
	}
	o.accepted = err == nil
	o.finding = schemaFinding(form == "nil" || form == "doc-absent" || form == "doc-null", schema)
	if err != nil {
		return o
	}
	if o.finding != nil {
		o.vs = append(o.vs, evid.V("inconsistent-schema-is-error", "%s: schema is inconsistent (%s: %s) but the conversion succeeds: %s",
			target, o.finding.class, o.finding.detail, short(schema)))
	}
	if entry == nil {
		o.vs = append(o.vs, evid.V("result-well-formed", "nil entry with nil error for %s", short(schema)))
		return o
	}
	o.entry = entry
	if holes(entry.Inputs) || holes(entry.Outputs) {
		o.vs = append(o.vs, evid.V("result-well-formed", "converted entry contains a nil parameter: %s", short(schema)))
		return o
	}
	if pv := evid.Guard("result-well-formed", func() {
		if verr := entry.Validate(); verr != nil {
			o.vs = append(o.vs, evid.V("result-well-formed", "conversion succeeds but the entry does not validate (%v): %s", verr, short(schema)))
		}
		_, _ = entry.Signature()
		_ = ffi2abi.ABIMethodToSignature(entry)
	}); pv != nil {
		o.vs = append(o.vs, *pv)
	}
	return o
}

func judgeSchema(c SchemaCase) []evid.Violation {
	return judgeSchemaForm(c.Target, decStr(c.Name), decStr(c.Schema), c.Form).vs
}

// passesMeta classifies (for the evidence only): does the text compile as an FFI parameter schema?
func passesMeta(name, schema string) (ok bool) {
	defer func() {
		if recover() != nil {
			ok = false
		}
	}()
	c := fftypes.NewFFISchemaCompiler()
	v := &ffi2abi.ParamValidator{}
	c.RegisterExtension(v.GetExtensionName(), v.GetMetaSchema(), v)
	u := strings.ReplaceAll(url.PathEscape(name), ":", "%3A") // a neutral spelling of the name as a resource URL
	if err := c.AddResource(u, strings.NewReader(schema)); err != nil {
		return false
	}
	_, err := c.Compile(u)
	return err == nil
}

// ---------------------------------------------------------------------------
// generators: ABI

var reservedNames = []string{"index", "items", "details", "properties", "type", "oneOf", "$ref", "$id", "$defs", "$schema", "$anchor", "required", "description", "_", "$"}

func genIdent(rt *rapid.T, label string) string {
	if rapid.IntRange(0, 9).Draw(rt, label+".reserved") == 0 {
		return rapid.SampledFrom(reservedNames).Draw(rt, label+".rname")
	}
	first := rapid.SampledFrom([]rune("abcdefghijklmnopqrstuvwxyzABCXYZ_$")).Draw(rt, label+".c0")
	rest := rapid.StringOfN(rapid.SampledFrom([]rune("abcdefghijklmnopqrstuvwxyzABCXYZ0123456789_$")), 0, 7, -1).Draw(rt, label+".rest")
	return string(first) + rest
}

// Names are arbitrary strings in the ABI JSON format; the property says they are preserved.
// wideAlphabet: Unicode letters of several scripts, white space, every ASCII punctuation
// character (the URL-reserved ones included) and pieces that look like percent-escapes.
var wideAlphabet = []string{"a", "b", "Z", "0", "7", "_", "$", "\u00e9", "\u00f6", "\u00df", "\u6570", "\u91cf", "\u0436", "\u03a9", "\U0001F600", "e\u0301",
	" ", "\t", "#", "%", "/", "?", ";", ",", "&", "=", "+", ":", "@", "!", "*", "'", "(", ")", "[", "]", "{", "}", "<", ">", "|", "\\", "^", "`", "\"", "~", ".", "-",
	"%41", "%2F", "%25", "%zz", "%3A", "%20", "..", "//", "\u202e", "\u00a0"}

var wideSamples = []string{"unit price", "100%", "ok?", "needed,available", "a/b", "gr\u00f6\u00dfe", "\u6570\u91cf", "a:b", "1:2", ":", "Foo:bar", "a#b", "#", "%41", "%", "..", ".", "a/../b",
	"a b%20c", "http://x/y", "a;b", "a&b=c+d", "?", "/", "x y z", "\u00e9:x", "<T>", "a[0]", "{k}", "a|b", "a\\b", "caf\u00e9", "na\u00efve name", "~", "-", "a.b", "q?#f"}

// digitNames: names that are decimal numbers - legal names, and exactly what a member's POSITION
// looks like when it is written as a string ("0", "1", ...; "00", "01", "10" differ from every position
// of a 1..4-member tuple only in spelling).
var digitNames = []string{"0", "1", "2", "3", "4", "10", "00", "01"}

// genName draws a parameter / member name: an identifier most of the time, a wide name otherwise.
func genName(rt *rapid.T, label string) string {
	if rapid.IntRange(0, 15).Draw(rt, label+".digits") == 9 {
		return rapid.SampledFrom(digitNames).Draw(rt, label+".digit")
	}
	switch rapid.IntRange(0, 9).Draw(rt, label+".shape") {
	case 0, 1:
		n := rapid.IntRange(1, 6).Draw(rt, label+".wide.n")
		var sb strings.Builder
		for i := 0; i < n; i++ {
			sb.WriteString(rapid.SampledFrom(wideAlphabet).Draw(rt, label+".wide.c"))
		}
		return sb.String()
	case 2:
		return rapid.SampledFrom(wideSamples).Draw(rt, label+".wide.sample")
	case 3: // an identifier with one wide piece inside
		id := genIdent(rt, label)
		pos := rapid.IntRange(0, len(id)).Draw(rt, label+".wide.pos")
		return id[:pos] + rapid.SampledFrom(wideAlphabet).Draw(rt, label+".wide.c") + id[pos:]
	}
	return genIdent(rt, label)
}

func isIdentName(s string) bool {
	for i := 0; i < len(s); i++ {
		c := s[i]
		if !(c >= 'a' && c <= 'z' || c >= 'A' && c <= 'Z' || c >= '0' && c <= '9' || c == '_' || c == '$') {
			return false
		}
	}
	return true
}

func distinctNames(rt *rapid.T, label string, n int, allowEmpty bool) []string {
	return distinctNamesWith(rt, label, n, allowEmpty, genName)
}

func distinctNamesWith(rt *rapid.T, label string, n int, allowEmpty bool, draw func(*rapid.T, string) string) []string {
	seen := map[string]bool{}
	out := make([]string, 0, n)
	for i := 0; i < n; i++ {
		if allowEmpty && rapid.IntRange(0, 5).Draw(rt, fmt.Sprintf("%s.%d.unnamed", label, i)) == 0 {
			out = append(out, "")
			continue
		}
		name := draw(rt, fmt.Sprintf("%s.%d", label, i))
		for seen[name] {
			name += fmt.Sprint(i)
		}
		seen[name] = true
		out = append(out, name)
	}
	return out
}

// memberNames draws the names of the members of ONE tuple.  They are pairwise distinct (the
// property's quantifier), which leaves room for exactly one member WITHOUT a name (about one
// tuple in four has one, at a position drawn uniformly), and about one named member in six is
// called like a decimal number - often the position of a sibling, the unnamed one included.
func memberNames(rt *rapid.T, label string, n int) []string {
	names := distinctNamesWith(rt, label, n, false, func(rt *rapid.T, l string) string {
		if rapid.IntRange(0, 11).Draw(rt, l+".position") == 7 {
			return fmt.Sprint(rapid.IntRange(0, n).Draw(rt, l+".position.n"))
		}
		return genName(rt, l)
	})
	if u := rapid.IntRange(0, 4*n-1).Draw(rt, label+".unnamedMember"); u < n {
		names[u] = ""
	}
	return names
}

func genElementary(rt *rapid.T, label string) string {
	switch rapid.IntRange(0, 11).Draw(rt, label+".el") {
	case 0, 1:
		return fmt.Sprintf("uint%d", 8*rapid.IntRange(1, 32).Draw(rt, label+".w"))
	case 2:
		return fmt.Sprintf("int%d", 8*rapid.IntRange(1, 32).Draw(rt, label+".w"))
	case 3:
		return "address"
	case 4:
		return "bool"
	case 5:
		return fmt.Sprintf("bytes%d", rapid.IntRange(1, 32).Draw(rt, label+".b"))
	case 6:
		return "bytes"
	case 7, 8:
		return "string"
	case 9:
		return "function"
	default:
		return fmt.Sprintf("%s%dx%d", rapid.SampledFrom([]string{"fixed", "ufixed"}).Draw(rt, label+".fx"),
			8*rapid.IntRange(1, 32).Draw(rt, label+".m"), rapid.IntRange(1, 80).Draw(rt, label+".n"))
	}
}

func genDims(rt *rapid.T, label string, tuple bool) string {
	weights := []int{0, 0, 0, 0, 1, 1, 2, 3}
	if tuple {
		weights = []int{0, 0, 1, 1, 2, 2, 3}
	}
	n := rapid.SampledFrom(weights).Draw(rt, label+".ndims")
	var b strings.Builder
	for i := 0; i < n; i++ {
		if rapid.Bool().Draw(rt, fmt.Sprintf("%s.dyn%d", label, i)) {
			b.WriteString("[]")
		} else {
			fmt.Fprintf(&b, "[%d]", rapid.IntRange(1, 4).Draw(rt, fmt.Sprintf("%s.len%d", label, i)))
		}
	}
	return b.String()
}

// genParam draws one parameter (schema kinds, convseq and - through genParams - the ABIs).
func genParam(rt *rapid.T, label string, name string, depth int) T {
	ts := []T{genParamOpt(rt, label, name, depth, 90)}
	markMembersIndexed(rt, label+".mi", ts, 15) // (the ABIs and the definitions flag members themselves, per kind of entry)
	return ts[0]
}

// rare is true with a probability of roughly k * 0.034 %.  (rapid's integer draws favour
// small values and the upper bound - IntRange(0,n) == 0 comes up about one time in ten
// whatever n is - so the test looks at a window in the upper half of a 10-bit range, which
// is only reached by a full-width uniform draw.  Shrinking moves away from the window.)
func rare(rt *rapid.T, label string, k int) bool {
	v := rapid.IntRange(0, 1023).Draw(rt, label)
	return v >= 512 && v < 512+k
}

// genParamOpt: with memberless > 0 (the k of rare: about 3 % of the top-level parameters,
// 0.7 % of the nested ones) the parameter is a tuple with NO members (an empty
// struct: "tuple", "tuple[]", "tuple[3][]" with an absent or an empty component list) - at
// the top level, inside other tuples and under array dimensions alike.  Such a tuple can
// sit at depth 0 as well (it needs no further nesting budget).
func genParamOpt(rt *rapid.T, label string, name string, depth int, memberless int) T {
	t := T{Name: name}
	if memberless > 0 && rare(rt, label+".memberless", memberless) {
		dims := genDims(rt, label, true)
		t.Type = "tuple" + dims
		if rapid.Bool().Draw(rt, label+".emptylist") {
			t.Components = []T{}
		}
		if rapid.Bool().Draw(rt, label+".it") {
			t.InternalType = "struct Empty" + dims
		}
		return t
	}
	if depth > 0 && rapid.IntRange(0, 9).Draw(rt, label+".tuple") < 4 {
		dims := genDims(rt, label, true)
		t.Type = "tuple" + dims
		n := rapid.IntRange(1, 4).Draw(rt, label+".members")
		names := memberNames(rt, label+".m", n)
		for i, mn := range names {
			t.Components = append(t.Components, genParamOpt(rt, fmt.Sprintf("%s.%d", label, i), mn, depth-1, min(memberless, 20)))
		}
		if rapid.Bool().Draw(rt, label+".it") {
			t.InternalType = "struct " + rapid.SampledFrom([]string{"", "Lib.", "Outer.Inner."}).Draw(rt, label+".scope") + "S" + strings.ToUpper(name) + dims
		}
		return t
	}
	el := genElementary(rt, label)
	t.Type = el + genDims(rt, label, false)
	switch rapid.IntRange(0, 3).Draw(rt, label+".it") {
	case 0:
		t.InternalType = t.Type
	case 1:
		switch el {
		case "uint8":
			t.InternalType = "enum Lib.Kind" + t.Type[len(el):]
		case "address":
			t.InternalType = "contract IThing" + t.Type[len(el):]
		}
	}
	return t
}

// maxIndexed: a log has four topics; the first one holds the signature hash of an ordinary
// event, an ANONYMOUS event has no signature topic and may index four parameters.
func maxIndexed(anonymous bool) int {
	if anonymous {
		return 4
	}
	return 3
}

// markIndexed flags 0..maxIndexed(anonymous) of the inputs (any positions) as indexed; half of
// the events use the whole allowance (as far as they have parameters).
func markIndexed(rt *rapid.T, label string, inputs []T, anonymous bool) {
	limit := maxIndexed(anonymous)
	want := limit
	if rapid.Bool().Draw(rt, label+".idx.some") {
		want = rapid.IntRange(0, limit).Draw(rt, label+".idx.n")
	}
	if want > len(inputs) {
		want = len(inputs)
	}
	if want == 0 {
		return
	}
	pos := make([]int, len(inputs))
	for i := range pos {
		pos[i] = i
	}
	for _, j := range rapid.Permutation(pos).Draw(rt, label+".idx.at")[:want] {
		inputs[j].Indexed = true
	}
}

// markMembersIndexed sets "indexed": true on tuple MEMBERS - below the top level, where markIndexed
// never looks.  The compiler only sets the flag on the top-level inputs of an event, but the ABI
// JSON format and the library's Parameter type carry it on every parameter object, and the
// interface format has a details.indexed slot at every level: "the same ... indexed flags as the
// original" is therefore a statement about every node of the tree.  About pct % of the tuples
// (alone, under array dimensions, nested in other tuples) get a non-empty set of flagged members;
// a flagged member does not use up a log topic (topics belong to top-level parameters).
func markMembersIndexed(rt *rapid.T, label string, ts []T, pct int) {
	for i := range ts {
		t := &ts[i]
		if len(t.Components) == 0 {
			continue
		}
		l := fmt.Sprintf("%s.%d", label, i)
		if rapid.IntRange(0, 99).Draw(rt, l+".midx") >= 100-pct { // (the upper end: shrinking removes the flags)
			any := false
			for j := range t.Components {
				if rapid.Bool().Draw(rt, fmt.Sprintf("%s.midx%d", l, j)) {
					t.Components[j].Indexed, any = true, true
				}
			}
			if !any {
				t.Components[rapid.IntRange(0, len(t.Components)-1).Draw(rt, l+".midx.at")].Indexed = true
			}
		}
		markMembersIndexed(rt, l, t.Components, pct)
	}
}

func countIndexed(inputs []T) (n int) {
	for _, p := range inputs {
		if p.Indexed {
			n++
		}
	}
	return n
}

func genParams(rt *rapid.T, label string, maxN int, depth int) []T {
	return genParamsN(rt, label, rapid.IntRange(0, maxN).Draw(rt, label+".n"), depth)
}

func genParamsN(rt *rapid.T, label string, n int, depth int) []T {
	names := distinctNames(rt, label, n, true)
	out := make([]T, 0, n)
	for i, name := range names {
		out = append(out, genParamOpt(rt, fmt.Sprintf("%s.%d", label, i), name, depth, 90))
	}
	return out
}

func ptrs(ts []T) (out []*T) {
	for i := range ts {
		out = append(out, &ts[i])
	}
	return out
}

func genABI(rt *rapid.T) ABICase {
	n := rapid.IntRange(1, 4).Draw(rt, "entries")
	names := distinctNamesWith(rt, "entry", n, false, func(rt *rapid.T, l string) string {
		if rapid.IntRange(0, 9).Draw(rt, l+".wideEntry") == 0 {
			return genName(rt, l)
		}
		return genIdent(rt, l)
	})
	var c ABICase
	for i, name := range names {
		label := fmt.Sprintf("e%d", i)
		e := E{Name: name}
		switch rapid.IntRange(0, 9).Draw(rt, label+".kind") {
		case 0, 1, 2, 3, 4, 5:
			e.Type = "function"
			e.Inputs = genParams(rt, label+".in", 3, 3)
			e.Outputs = genParams(rt, label+".out", 2, 2)
			e.StateMutability = rapid.SampledFrom([]string{"", "pure", "view", "payable", "nonpayable"}).Draw(rt, label+".sm")
			e.Payable = e.StateMutability == "payable" && rapid.Bool().Draw(rt, label+".payable")
			e.Constant = (e.StateMutability == "view" || e.StateMutability == "pure") && rapid.Bool().Draw(rt, label+".constant")
		case 6, 7, 8:
			e.Type = "event"
			e.Anonymous = rapid.IntRange(0, 2).Draw(rt, label+".anon") == 1
			e.Inputs = genParamsN(rt, label+".in", rapid.SampledFrom([]int{0, 1, 2, 3, 3, 4, 4, 5, 6}).Draw(rt, label+".in.n"), 2)
			markIndexed(rt, label, e.Inputs, e.Anonymous)
			markMembersIndexed(rt, label+".in", e.Inputs, 45)
		default:
			e.Type = "error"
			e.Inputs = genParams(rt, label+".in", 3, 2)
		}
		if e.Type != "event" {
			// functions and errors: the flag means nothing to the EVM there, but the formats carry it all the same
			markMembersIndexed(rt, label+".in", e.Inputs, 15)
			markMembersIndexed(rt, label+".out", e.Outputs, 15)
			if rare(rt, label+".topidx", 60) { // about 2 % of them: a flagged top-level parameter
				if all := append(append([]*T{}, ptrs(e.Inputs)...), ptrs(e.Outputs)...); len(all) > 0 {
					all[rapid.IntRange(0, len(all)-1).Draw(rt, label+".topidx.at")].Indexed = true
				}
			}
		}
		if e.Inputs == nil {
			e.Inputs = []T{}
		}
		c.ABI = append(c.ABI, e)
	}
	if rapid.IntRange(0, 5).Draw(rt, "ctor") == 0 {
		c.ABI = append(c.ABI, E{Type: "constructor", Inputs: genParams(rt, "ctor.in", 2, 1), StateMutability: "nonpayable"})
	}
	return c
}

type abiStats struct {
	tupleInTuple, tupleIn2D, tupleIn1D, anyTuple, indexed, unnamed, internal bool
	wideTop, wideMember, escapedTop                                          bool
	// tuple members without a name / called like a decimal number, by where the tuple sits
	unnamedMember, digitMember, unnamedBesidePosition bool
	unnamedMemberWhere                                map[string]bool
	maxDepth                                          int
	// member-less tuples, by where they sit (labels of the evidence histogram)
	memberless map[string]bool
	// tuple members flagged as indexed, by where they sit
	indexedMember map[string]bool
}

func (s *abiStats) visit(t T, depth int, insideTuple bool) {
	s.visitIn(t, depth, insideTuple, "")
}

func (s *abiStats) visitIn(t T, depth int, insideTuple bool, where string) {
	if strings.HasPrefix(t.Type, "tuple") && len(t.Components) == 0 {
		if s.memberless == nil {
			s.memberless = map[string]bool{}
		}
		s.memberless["any"] = true
		if where != "" {
			s.memberless[where] = true
		}
		if insideTuple {
			s.memberless["nested-in-tuple"] = true
		} else {
			s.memberless["top-level"] = true
		}
		if strings.Contains(t.Type, "[") {
			s.memberless["under-array-dimensions"] = true
		}
		if t.Components != nil {
			s.memberless["components-empty-list"] = true
		} else {
			s.memberless["components-absent"] = true
		}
		if t.Indexed {
			s.memberless["indexed"] = true
		}
	}
	if t.Indexed {
		s.indexed = true
	}
	if !isIdentName(t.Name) {
		if insideTuple {
			s.wideMember = true
		} else {
			s.wideTop = true
			if url.PathEscape(t.Name) != t.Name {
				s.escapedTop = true
			}
		}
	}
	if t.Name == "" {
		s.unnamed = true
	}
	if t.InternalType != "" {
		s.internal = true
	}
	if strings.HasPrefix(t.Type, "tuple") {
		s.anyTuple = true
		nd := strings.Count(t.Type, "[")
		if insideTuple {
			s.tupleInTuple = true
		}
		if nd >= 2 {
			s.tupleIn2D = true
		} else if nd == 1 {
			s.tupleIn1D = true
		}
		if depth+1 > s.maxDepth {
			s.maxDepth = depth + 1
		}
		for i, c := range t.Components {
			if c.Indexed {
				if s.indexedMember == nil {
					s.indexedMember = map[string]bool{}
				}
				s.indexedMember["any"] = true
				if where != "" {
					s.indexedMember[where] = true
				}
				if insideTuple {
					s.indexedMember["member-of-tuple-nested-in-tuple"] = true
				}
				if nd > 0 {
					s.indexedMember["member-of-tuple-under-array-dimensions"] = true
				}
				if strings.HasPrefix(c.Type, "tuple") {
					s.indexedMember["member-is-a-tuple"] = true
				}
				if !t.Indexed {
					s.indexedMember["parent-not-indexed"] = true
				}
				if c.Name == "" {
					s.indexedMember["unnamed-member"] = true
				}
			}
			if c.Name == "" {
				s.unnamedMember = true
				if s.unnamedMemberWhere == nil {
					s.unnamedMemberWhere = map[string]bool{}
				}
				if where != "" {
					s.unnamedMemberWhere[where] = true
				}
				if insideTuple {
					s.unnamedMemberWhere["tuple-nested-in-tuple"] = true
				} else {
					s.unnamedMemberWhere["top-level-tuple"] = true
				}
				if nd > 0 {
					s.unnamedMemberWhere["tuple-under-array-dimensions"] = true
				}
				if strings.HasPrefix(c.Type, "tuple") {
					s.unnamedMemberWhere["unnamed-member-is-a-tuple"] = true
				}
				for _, sib := range t.Components {
					if sib.Name == fmt.Sprint(i) {
						s.unnamedBesidePosition = true
					}
				}
			} else if strings.Trim(c.Name, "0123456789") == "" {
				s.digitMember = true
			}
			s.visitIn(c, depth+1, true, where)
		}
	}
}

func sortedBoolKeys(m map[string]bool) []string {
	out := make([]string, 0, len(m))
	for k := range m {
		out = append(out, k)
	}
	sort.Strings(out)
	return out
}

func statsOf(c ABICase) (s abiStats) {
	for _, e := range c.ABI {
		for _, p := range e.Inputs {
			s.visitIn(p, 0, false, e.Type+"-input")
		}
		for _, p := range e.Outputs {
			s.visitIn(p, 0, false, e.Type+"-output")
		}
	}
	return
}

// ---------------------------------------------------------------------------
// generators: schemas

var descriptions = map[string]string{"integer": "An integer.", "fixed": "A number.", "bool": "A boolean.", "address": "A hex encoded set of bytes.", "bytes": "A hex encoded set of bytes."}

// schemaFor builds the interface-format schema of a parameter (the documented
// shape: details on the outermost level, one items level per array dimension,
// tuple members as properties carrying their position).
func schemaFor(t T, index *int) map[string]interface{} {
	base, ndims, family, _ := ethShape(t.Type)
	_ = base
	det := map[string]interface{}{"type": t.Type}
	if t.InternalType != "" {
		det["internalType"] = t.InternalType
	}
	if t.Indexed {
		det["indexed"] = true
	}
	if index != nil {
		det["index"] = json.Number(fmt.Sprint(*index))
	}
	var inner map[string]interface{}
	switch family {
	case "tuple":
		props := map[string]interface{}{}
		for i, c := range t.Components {
			i := i
			props[c.Name] = schemaFor(c, &i)
		}
		inner = map[string]interface{}{"type": "object", "properties": props}
	case "integer":
		inner = map[string]interface{}{"oneOf": []interface{}{map[string]interface{}{"type": "string"}, map[string]interface{}{"type": "integer"}}}
	case "fixed":
		inner = map[string]interface{}{"oneOf": []interface{}{map[string]interface{}{"type": "string"}, map[string]interface{}{"type": "number"}}}
	case "bool":
		inner = map[string]interface{}{"oneOf": []interface{}{map[string]interface{}{"type": "string"}, map[string]interface{}{"type": "boolean"}}}
	default:
		inner = map[string]interface{}{"type": "string"}
	}
	if d, ok := descriptions[family]; ok {
		inner["description"] = d
	}
	for i := 0; i < ndims; i++ {
		inner = map[string]interface{}{"type": "array", "items": inner}
	}
	inner["details"] = det
	return inner
}

// node addresses one object inside a JSON tree.
type jsonObj struct {
	m    map[string]interface{}
	path string
}

func collectObjects(v interface{}, path string, out *[]jsonObj) {
	switch vt := v.(type) {
	case map[string]interface{}:
		*out = append(*out, jsonObj{vt, path})
		keys := make([]string, 0, len(vt))
		for k := range vt {
			keys = append(keys, k)
		}
		sort.Strings(keys)
		for _, k := range keys {
			collectObjects(vt[k], path+"/"+k, out)
		}
	case []interface{}:
		for i, el := range vt {
			collectObjects(el, fmt.Sprintf("%s/%d", path, i), out)
		}
	}
}

var schemaKeys = []string{"type", "details", "items", "properties", "index", "oneOf"}

func genJunk(rt *rapid.T, label string) interface{} {
	return rapid.SampledFrom([]interface{}{nil, true, false, json.Number("0"), json.Number("1"), json.Number("-1"), json.Number("1.5"), json.Number("1e3"),
		"x", "", "array", "object", "string", []interface{}{}, map[string]interface{}{}, []interface{}{map[string]interface{}{}},
		[]interface{}{map[string]interface{}{"type": "string"}}, map[string]interface{}{"type": "string"}, map[string]interface{}{"a": true},
		map[string]interface{}{"a": map[string]interface{}{"type": "string"}}, map[string]interface{}{"type": "object", "properties": map[string]interface{}{"a": map[string]interface{}{"type": "string"}}},
	}).Draw(rt, label)
}

var jsonTypeNames = []string{"boolean", "integer", "number", "string", "array", "object", "null", "foo"}
var ethTypeNames = []string{"bool", "uint256", "int8", "string", "bytes", "bytes32", "address", "function", "fixed128x18", "tuple", "tuple[]", "tuple[][]", "uint256[]", "string[2][]", "foobar", "", "uint257", "tuple256"}

// keysWith returns the objects (sorted walk order) that contain key.
func keysWith(objs []jsonObj, key string) []jsonObj {
	var out []jsonObj
	for _, o := range objs {
		if _, ok := o.m[key]; ok {
			out = append(out, o)
		}
	}
	return out
}

// tupleSchemas returns the objects that hold a non-empty "properties" map.
func tupleSchemas(objs []jsonObj) []jsonObj {
	var out []jsonObj
	for _, o := range objs {
		if p := asMap(o.m["properties"]); len(p) > 0 && !strings.HasSuffix(o.path, "/properties") {
			out = append(out, o)
		}
	}
	return out
}

func sortedKeys(m map[string]interface{}) []string {
	keys := make([]string, 0, len(m))
	for k := range m {
		keys = append(keys, k)
	}
	sort.Strings(keys)
	return keys
}

// mutateSchema applies one edit to the tree (in place) and names it.
func mutateSchema(rt *rapid.T, root map[string]interface{}, label string) string {
	var objs []jsonObj
	collectObjects(root, "", &objs)
	op := rapid.IntRange(0, 11).Draw(rt, label+".op")
	switch op {
	case 0, 1, 2, 3: // remove / retype one of the structural keys somewhere (chosen among those present)
		type slot struct {
			h   jsonObj
			key string
		}
		var slots []slot
		for _, key := range schemaKeys {
			for _, h := range keysWith(objs, key) {
				if key == "type" && strings.HasSuffix(h.path, "/details") && rapid.IntRange(0, 3).Draw(rt, label+".skipDetailsType") > 0 {
					continue
				}
				slots = append(slots, slot{h, key})
			}
		}
		if len(slots) == 0 {
			return "none"
		}
		// pick the key first so that rare keys (items, index) are as likely as frequent ones (type)
		present := map[string]bool{}
		var keys []string
		for _, sl := range slots {
			if !present[sl.key] {
				present[sl.key] = true
				keys = append(keys, sl.key)
			}
		}
		key := rapid.SampledFrom(keys).Draw(rt, label+".key")
		var cands []slot
		for _, sl := range slots {
			if sl.key == key {
				cands = append(cands, sl)
			}
		}
		sl := cands[rapid.IntRange(0, len(cands)-1).Draw(rt, label+".at")]
		if op < 2 {
			delete(sl.h.m, key)
			return "remove:" + key
		}
		sl.h.m[key] = genJunk(rt, label+".junk")
		return "retype:" + key
	case 4, 5, 6: // member positions
		tuples := tupleSchemas(objs)
		if len(tuples) == 0 {
			return "none"
		}
		tu := tuples[rapid.IntRange(0, len(tuples)-1).Draw(rt, label+".tuple")]
		props := asMap(tu.m["properties"])
		names := sortedKeys(props)
		victim := asMap(props[names[rapid.IntRange(0, len(names)-1).Draw(rt, label+".member")]])
		det := asMap(victim["details"])
		if det == nil {
			return "none"
		}
		n := len(names)
		switch rapid.IntRange(0, 5).Draw(rt, label+".how") {
		case 0:
			delete(det, "index")
			return "index:missing"
		case 1:
			if n < 2 {
				det["index"] = json.Number("1")
				return "index:out-of-range"
			}
			cur, _ := det["index"].(json.Number)
			other := (mustInt(cur) + 1 + rapid.IntRange(0, n-2).Draw(rt, label+".dup")) % n
			det["index"] = json.Number(fmt.Sprint(other))
			return "index:duplicate"
		case 2:
			det["index"] = json.Number(rapid.SampledFrom([]string{"-1", "-2", "-2147483648", "-9223372036854775808"}).Draw(rt, label+".neg"))
			return "index:negative"
		case 3:
			det["index"] = json.Number(rapid.SampledFrom([]string{fmt.Sprint(n), fmt.Sprint(n + 1), "255", "65536", "2147483647", "2147483648", "4294967296", "9223372036854775807", "9223372036854775808", "18446744073709551616"}).Draw(rt, label+".big"))
			return "index:out-of-range"
		case 4:
			det["index"] = rapid.SampledFrom([]interface{}{"0", json.Number("0.5"), json.Number("1.5"), nil, true, []interface{}{}, map[string]interface{}{}}).Draw(rt, label+".odd")
			return "index:not-integer"
		default:
			delete(victim, "details")
			return "member:no-details"
		}
	case 7: // JSON type at odds with the Ethereum type (either side, top level)
		if rapid.Bool().Draw(rt, label+".side") {
			delete(root, "oneOf")
			root["type"] = rapid.SampledFrom(jsonTypeNames).Draw(rt, label+".jt")
			return "retarget:json-type"
		}
		if det := asMap(root["details"]); det != nil {
			det["type"] = rapid.SampledFrom(ethTypeNames).Draw(rt, label+".et")
			return "retarget:eth-type"
		}
		return "none"
	case 8: // oneOf variations
		choice := rapid.SampledFrom([]interface{}{
			[]interface{}{}, []interface{}{map[string]interface{}{"type": "string"}},
			[]interface{}{map[string]interface{}{"type": "integer"}, map[string]interface{}{"type": "boolean"}},
			[]interface{}{map[string]interface{}{"type": "string"}, map[string]interface{}{"type": "object"}},
			[]interface{}{map[string]interface{}{"type": "string"}, map[string]interface{}{"type": "array"}},
			[]interface{}{map[string]interface{}{"type": "integer"}}, []interface{}{map[string]interface{}{"type": "boolean"}}, []interface{}{map[string]interface{}{"type": "number"}},
			[]interface{}{map[string]interface{}{}}, []interface{}{true}, "x", map[string]interface{}{},
		}).Draw(rt, label+".oneOf")
		h := objs[rapid.IntRange(0, len(objs)-1).Draw(rt, label+".at")]
		h.m["oneOf"] = choice
		if rapid.Bool().Draw(rt, label+".dropType") {
			delete(h.m, "type")
		}
		return "oneOf"
	case 9: // items in an unexpected form
		holders := keysWith(objs, "items")
		if len(holders) == 0 {
			// put an array face on something that is not an array
			root["type"] = "array"
			delete(root, "oneOf")
			return "array-without-items"
		}
		h := holders[rapid.IntRange(0, len(holders)-1).Draw(rt, label+".at")]
		switch rapid.IntRange(0, 4).Draw(rt, label+".how") {
		case 0:
			h.m["items"] = true
		case 1:
			h.m["items"] = false
		case 2:
			h.m["items"] = []interface{}{h.m["items"]}
		case 3:
			h.m["prefixItems"] = []interface{}{h.m["items"]}
			delete(h.m, "items")
		default:
			h.m["items"] = map[string]interface{}{"type": "array"}
		}
		return "items-form"
	case 10: // a member schema in an unexpected form
		tuples := tupleSchemas(objs)
		if len(tuples) == 0 {
			return "none"
		}
		tu := tuples[rapid.IntRange(0, len(tuples)-1).Draw(rt, label+".tuple")]
		props := asMap(tu.m["properties"])
		names := sortedKeys(props)
		name := names[rapid.IntRange(0, len(names)-1).Draw(rt, label+".member")]
		props[name] = rapid.SampledFrom([]interface{}{true, false, map[string]interface{}{}, map[string]interface{}{"type": "string"},
			map[string]interface{}{"type": "array", "details": map[string]interface{}{"type": "uint256[]", "index": json.Number("0")}},
			map[string]interface{}{"type": "object", "details": map[string]interface{}{"type": "tuple", "index": json.Number("0")}}}).Draw(rt, label+".form")
		return "member-form"
	default: // graft: move a sub-schema somewhere else / add an extra member
		tuples := tupleSchemas(objs)
		if len(tuples) == 0 {
			root["properties"] = map[string]interface{}{"extra": map[string]interface{}{"type": "string", "details": map[string]interface{}{"type": "string", "index": json.Number("0")}}}
			return "graft:properties"
		}
		tu := tuples[rapid.IntRange(0, len(tuples)-1).Draw(rt, label+".tuple")]
		props := asMap(tu.m["properties"])
		props["extra$"] = map[string]interface{}{"type": "string", "details": map[string]interface{}{"type": "string", "index": json.Number(fmt.Sprint(rapid.IntRange(0, len(props)).Draw(rt, label+".idx")))}}
		return "graft:member"
	}
}

func mustInt(n json.Number) int {
	i, _ := n.Int64()
	return int(i)
}

func marshal(v interface{}) string {
	var buf bytes.Buffer
	enc := json.NewEncoder(&buf)
	enc.SetEscapeHTML(false)
	_ = enc.Encode(v)
	return strings.TrimSpace(buf.String())
}

// genArbitraryJSON draws free-form JSON biased towards the keywords the converter reads.
func genArbitraryJSON(rt *rapid.T, label string, depth int) interface{} {
	k := rapid.IntRange(0, 9).Draw(rt, label+".k")
	if depth <= 0 && k >= 6 {
		k = k % 6
	}
	switch k {
	case 0:
		return rapid.SampledFrom([]interface{}{nil, true, false}).Draw(rt, label+".lit")
	case 1:
		return json.Number(rapid.SampledFrom([]string{"0", "1", "-1", "2", "1.5", "1e2", "2147483648", "18446744073709551616"}).Draw(rt, label+".num"))
	case 2, 3:
		return rapid.SampledFrom(append(append([]string{}, jsonTypeNames...), ethTypeNames...)).Draw(rt, label+".word")
	case 4:
		return rapid.String().Draw(rt, label+".str")
	case 5:
		return []interface{}{}
	case 6:
		n := rapid.IntRange(0, 3).Draw(rt, label+".alen")
		arr := make([]interface{}, n)
		for i := range arr {
			arr[i] = genArbitraryJSON(rt, fmt.Sprintf("%s.%d", label, i), depth-1)
		}
		return arr
	default:
		n := rapid.IntRange(0, 4).Draw(rt, label+".olen")
		m := map[string]interface{}{}
		for i := 0; i < n; i++ {
			key := rapid.OneOf(rapid.SampledFrom([]string{"type", "details", "items", "properties", "index", "oneOf", "internalType", "indexed", "description",
				"$ref", "$defs", "$id", "$schema", "required", "a", "b", "prefixItems", "additionalProperties", "enum", "const", "allOf", "anyOf", "not", "if"}),
				rapid.StringN(0, 4, -1)).Draw(rt, fmt.Sprintf("%s.key%d", label, i))
			m[key] = genArbitraryJSON(rt, fmt.Sprintf("%s.v%d", label, i), depth-1)
		}
		return m
	}
}

// genSchemaish draws JSON that is a syntactically valid JSON Schema most of the time, with the
// keywords the converter reads filled in freely (not derived from any ABI parameter).
func genSchemaish(rt *rapid.T, label string, depth int, member bool) interface{} {
	if rapid.IntRange(0, 19).Draw(rt, label+".odd") == 0 {
		return genArbitraryJSON(rt, label+".free", 2)
	}
	m := map[string]interface{}{}
	if rapid.IntRange(0, 9).Draw(rt, label+".type?") > 0 {
		m["type"] = rapid.SampledFrom(jsonTypeNames[:6]).Draw(rt, label+".type")
	} else if rapid.Bool().Draw(rt, label+".oneOf?") {
		m["oneOf"] = []interface{}{map[string]interface{}{"type": "string"}, map[string]interface{}{"type": rapid.SampledFrom([]string{"integer", "number", "boolean"}).Draw(rt, label+".alt")}}
	}
	if rapid.IntRange(0, 9).Draw(rt, label+".details?") > 1 {
		det := map[string]interface{}{"type": rapid.SampledFrom(ethTypeNames).Draw(rt, label+".eth")}
		if member || rapid.IntRange(0, 3).Draw(rt, label+".index?") == 0 {
			if rapid.IntRange(0, 9).Draw(rt, label+".index.ok") > 0 {
				det["index"] = json.Number(fmt.Sprint(rapid.IntRange(-1, 3).Draw(rt, label+".index")))
			} else {
				det["index"] = genJunk(rt, label+".index.junk")
			}
		}
		if rapid.IntRange(0, 5).Draw(rt, label+".indexed?") == 0 {
			det["indexed"] = rapid.Bool().Draw(rt, label+".indexed")
		}
		m["details"] = det
	}
	if depth > 0 && rapid.IntRange(0, 9).Draw(rt, label+".items?") < 4 {
		m["items"] = genSchemaish(rt, label+".items", depth-1, false)
	}
	if depth > 0 && rapid.IntRange(0, 9).Draw(rt, label+".props?") < 4 {
		props := map[string]interface{}{}
		n := rapid.IntRange(0, 3).Draw(rt, label+".nprops")
		for i := 0; i < n; i++ {
			props[rapid.SampledFrom([]string{"a", "b", "c", "index", "$ref"}).Draw(rt, fmt.Sprintf("%s.pn%d", label, i))] = genSchemaish(rt, fmt.Sprintf("%s.p%d", label, i), depth-1, true)
		}
		m["properties"] = props
	}
	return m
}

var targets = []string{"method-param", "method-return", "event", "error"}

// ---------------------------------------------------------------------------

func TestCheck(t *testing.T) {
	rec := evid.Start("C20", rule)
	defer rec.Finish()
	rec.Assume("round-trip oracle: signature and parameter tree rendered from the generated ABI model (explicit-width types only), not from the library's parse of it")
	rec.Assume("tuples have 0..4 members: a member-less tuple (component list absent or present and empty; about 3 % of the top-level parameters, 0.7 % of the nested ones; alone, under 1..3 array dimensions, inside other tuples, as input, output, event input - indexed or not - and error input) is spelled (), ()[], ()[3][] by the reference renderer and takes part in the helper-signature clause and in the whole round trip like every other tuple (the interface format represents it as an object schema without properties)")
	rec.Assume("tuple member names are pairwise distinct (the quantifier): that admits ONE member without a name per tuple (about one tuple in four has one: top level, nested, under array dimensions, in inputs, outputs, events and errors; also a tuple-typed unnamed member) and members named like decimal numbers (\"0\", \"1\", \"10\", \"01\", often the position of a sibling); every name must come back verbatim - unnamed stays unnamed. Two unnamed members of one tuple share the name \"\" and are outside the quantifier (the interface format keys members by name); top-level parameters are a list and may be unnamed any number of times")
	rec.Assume("events: an ordinary event has up to 3 indexed parameters, an anonymous one up to 4 (the EVM's four log topics, the first of which holds the signature hash of an ordinary event); half of the generated events use the whole allowance; the interface format carries 'anonymous' in the event details, so both kinds must survive the round trip. Nothing is claimed about events with more indexed parameters than topics (not generated); preservation of the anonymous flag itself is not asserted")
	rec.Assume("indexed flags are compared at EVERY level of the parameter tree: besides the top-level event inputs (the only place the compiler sets the flag) about 45 % of the tuples of event inputs and 15 % of the tuples of function inputs / outputs and error inputs carry \"indexed\": true on some of their MEMBERS (members of nested tuples, of tuples under array dimensions, tuple-typed and unnamed members included), and about 2 % of the functions and errors flag one top-level parameter - the ABI JSON format and the library's parameter type carry the flag on every parameter object, and the interface format has a details.indexed slot at every level (kinds abi, shared, def, the concurrent batches; the schema kinds see such schemas as mutation bases). A flagged member does not use up a log topic")
	rec.Assume("a parameter without a usable schema - FFIParam.Schema nil (in a JSON document: member absent or null), empty or white-space text, text that is not JSON (json.Valid), a JSON value that is not an object - cannot say which Ethereum type it has: the conversion must report an error (kinds schema, def, convseq; at any position of the parameter or return list). Definitions are handed over built in Go and as JSON documents decoded by encoding/json into the fftypes definition types")
	rec.Assume("kind def: schemas of the well-formed parameters are built by the package's own schemaFor (not by the library's ABI -> FFI direction); a definition whose parameters are all well-formed must be accepted and reproduce the modelled names, types, nesting and indexed flags")
	rec.Assume("schema oracle: analyse() — generic-JSON analyser for the inconsistencies the property names (array without items; member position missing, colliding, out of range; JSON type definitely at odds with details.type at the top level); it returns 'nothing provable' for every shape it does not understand")
	rec.Assume("not asserted: alias spellings in the stand-alone helper; preservation of internalType / stateMutability / payable / constant / anonymous; JSON type of nested members; 'integer' for address or fixed and 'number' for integer types (open readings); nil entries in a params list")
	rec.Assume("kind convseq (histories): a \"$ref\" to another document (identifier-like, not a fragment, not the parameter's own name, not an existing file) cannot be resolved when a definition is converted on its own, so such a conversion must fail at every position of a history; names carry a per-case tag so that no two cases share a name")
	kABI := evid.NewKind(rec, "abi", judgeABI)
	kSchema := evid.NewKind(rec, "schema", judgeSchema).DeclareEach()
	m := moreKinds(rec, true)
	rec.Corpus(t)

	rec.Rapid(t, "abi", rec.N(1500, 15000), func(rt *rapid.T) {
		c := genABI(rt)
		s := statsOf(c)
		var cl []string
		add := func(b bool, l string) {
			if b {
				cl = append(cl, l)
			}
		}
		add(s.tupleInTuple, "abi:tuple-in-tuple")
		add(s.tupleIn2D, "abi:tuple-in->=2D-array")
		add(s.tupleIn1D, "abi:tuple-in-1D-array")
		add(s.anyTuple, "abi:any-tuple")
		add(!s.anyTuple, "abi:no-tuple")
		add(s.indexed, "abi:indexed")
		add(s.unnamed, "abi:unnamed-parameter")
		add(s.internal, "abi:internalType")
		add(s.maxDepth >= 3, "abi:tuple-depth>=3")
		add(s.wideTop, "abi:top-level-name-beyond-identifiers")
		add(s.escapedTop, "abi:top-level-name-changed-by-URL-escaping")
		add(s.wideMember, "abi:member-name-beyond-identifiers")
		add(s.unnamedMember, "abi:unnamed-tuple-member")
		add(s.digitMember, "abi:tuple-member-named-like-a-number")
		add(s.unnamedBesidePosition, "abi:unnamed-tuple-member-beside-one-named-like-its-position")
		for _, w := range sortedBoolKeys(s.unnamedMemberWhere) {
			cl = append(cl, "abi:unnamed-tuple-member:"+w)
		}
		var anon, anon4, ord3, idx0 bool
		for _, e := range c.ABI {
			if e.Type == "event" {
				ni := countIndexed(e.Inputs)
				anon = anon || e.Anonymous
				anon4 = anon4 || e.Anonymous && ni == 4
				ord3 = ord3 || !e.Anonymous && ni == 3
				idx0 = idx0 || ni == 0 && len(e.Inputs) > 0
			}
		}
		add(anon, "abi:event:anonymous")
		add(anon4, "abi:event:anonymous-with-4-indexed")
		add(ord3, "abi:event:ordinary-with-3-indexed")
		add(idx0, "abi:event:none-indexed")
		for _, w := range sortedBoolKeys(s.memberless) {
			cl = append(cl, "abi:member-less-tuple:"+w)
		}
		for _, w := range sortedBoolKeys(s.indexedMember) {
			cl = append(cl, "abi:indexed-tuple-member:"+w)
		}
		for _, e := range c.ABI {
			if e.Type != "event" && e.Type != "constructor" && countIndexed(e.Inputs)+countIndexed(e.Outputs) > 0 {
				cl = append(cl, "abi:indexed-top-level-parameter-of-"+e.Type)
			}
		}
		seenType := map[string]bool{}
		for _, e := range c.ABI {
			if !seenType[e.Type] {
				seenType[e.Type] = true
				cl = append(cl, "abi:entry:"+e.Type)
			}
		}
		kABI.Check(rt, c, s.tupleInTuple || s.tupleIn2D, cl...)
		if s.anyTuple {
			m.cABI.offer(c)
			m.nShared++
			if m.nShared%8 == 0 {
				m.kShared.Check(rt, SharedCase{ABI: c.ABI, Workers: 6}, s.tupleInTuple || s.tupleIn2D, "shared:one-definition-many-goroutines")
			}
		}
	})

	rec.Rapid(t, "schema-mutants", rec.N(4000, 30000), func(rt *rapid.T) {
		name := genName(rt, "name")
		p := genParam(rt, "p", name, 2)
		for try := 0; try < 3 && !strings.HasPrefix(p.Type, "tuple") && !strings.HasSuffix(p.Type, "]"); try++ {
			// most of the code behind the meta-schema deals with tuples and arrays: prefer them
			p = genParam(rt, fmt.Sprintf("p%d", try), name, 2)
		}
		root := schemaFor(p, nil)
		nmut := rapid.SampledFrom([]int{1, 1, 1, 2, 3}).Draw(rt, "nmut")
		var ops []string
		for i := 0; i < nmut; i++ {
			op := "none"
			for try := 0; try < 4 && op == "none"; try++ {
				op = mutateSchema(rt, root, fmt.Sprintf("mut%d.%d", i, try))
			}
			ops = append(ops, op)
		}
		target := rapid.SampledFrom(targets).Draw(rt, "target")
		text := marshal(root)
		if len(text) > 16<<10 {
			rt.Skip("schema over 16KiB")
		}
		form := ""
		if rapid.IntRange(0, 4).Draw(rt, "form") == 2 {
			form = "doc" // the definition travels as a JSON document
		}
		o := judgeSchemaForm(target, name, text, form)
		meta := passesMeta(name, text)
		cl := []string{"schema:mutant", "schema:form:" + form}
		for _, op := range ops {
			cl = append(cl, "mut:"+op)
		}
		cl = append(cl, schemaClasses("mutant", o, meta)...)
		sc := SchemaCase{Target: target, Name: encStr(name), Schema: encStr(text), Form: form}
		kSchema.Check(rt, sc, meta, cl...)
		if meta {
			m.cSchema.offer(sc)
		}
	})

	// the plainest "arbitrary definitions", exhaustively: a parameter with no schema at all (nil pointer; in a
	// document: member absent / null) and schema texts that are nothing, white space, not JSON, or a JSON value
	// that is not an object - for every target, built in Go and (where a document can carry it) as a document
	t.Run("schema-not-a-schema", func(t *testing.T) {
		for _, name := range []string{"p", "", "1", "a b"} {
			for _, target := range targets {
				for _, form := range []string{"nil", "doc-absent", "doc-null"} {
					kSchema.Must(t, SchemaCase{Target: target, Name: name, Form: form}, false, "schema:no-schema", "schema:form:"+form)
				}
				for _, text := range append(append([]string{}, notSchemas...), notJSON...) {
					for _, form := range []string{"", "doc"} {
						if form == "doc" && !json.Valid([]byte(text)) {
							continue
						}
						f := schemaFinding(false, text)
						if f == nil {
							t.Fatalf("harness: %q is not reported as unusable", text)
						}
						kSchema.Must(t, SchemaCase{Target: target, Name: name, Schema: encStr(text), Form: form}, false, "schema:not-a-schema", "schema:form:"+form, "inconsistent:"+f.class)
					}
				}
			}
		}
	})

	rec.Rapid(t, "schema-wellformed", rec.N(300, 3000), func(rt *rapid.T) {
		// unmutated schemas: the analyser must find nothing and the conversion must succeed (guards the oracle against over-reporting)
		name := genName(rt, "name")
		p := genParam(rt, "p", name, 3)
		text := marshal(schemaFor(p, nil))
		target := rapid.SampledFrom(targets).Draw(rt, "target")
		o := judgeSchemaText(target, name, text)
		if o.finding != nil {
			rt.Fatalf("harness: analyser reports %s on a well-formed schema: %s", o.finding.class, text)
		}
		if !o.accepted && len(o.vs) == 0 {
			rt.Fatalf("harness: well-formed schema rejected: %s", text)
		}
		kSchema.Check(rt, SchemaCase{Target: target, Name: encStr(name), Schema: encStr(text)}, false, "schema:well-formed")
	})

	rec.Rapid(t, "schema-arbitrary", rec.N(2000, 20000), func(rt *rapid.T) {
		var text string
		switch rapid.IntRange(0, 9).Draw(rt, "mode") {
		case 0:
			text = rapid.String().Draw(rt, "text")
		case 1:
			text = marshal(genArbitraryJSON(rt, "j", 4))
		case 2, 3, 4, 5, 6:
			text = marshal(genSchemaish(rt, "s", 3, false))
		default:
			// arbitrary JSON under a plausible envelope so that the meta-schema is passed more often
			env := map[string]interface{}{
				"type":    rapid.SampledFrom(jsonTypeNames).Draw(rt, "jt"),
				"details": map[string]interface{}{"type": rapid.SampledFrom(ethTypeNames).Draw(rt, "et")},
			}
			if rapid.Bool().Draw(rt, "items?") {
				env["items"] = genArbitraryJSON(rt, "items", 3)
			}
			if rapid.Bool().Draw(rt, "props?") {
				env["properties"] = genArbitraryJSON(rt, "props", 3)
			}
			if rapid.IntRange(0, 3).Draw(rt, "extra?") == 0 {
				env[rapid.SampledFrom([]string{"oneOf", "$ref", "$defs", "allOf", "index"}).Draw(rt, "xk")] = genArbitraryJSON(rt, "x", 2)
			}
			text = marshal(env)
		}
		name := "p"
		if rapid.IntRange(0, 9).Draw(rt, "oddname") == 0 {
			name = rapid.String().Draw(rt, "name")
		}
		target := rapid.SampledFrom(targets).Draw(rt, "target")
		form := ""
		switch rapid.IntRange(0, 19).Draw(rt, "form") {
		case 7, 8, 9:
			if json.Valid([]byte(text)) && utf8.ValidString(name) {
				form = "doc"
			}
		case 10:
			form, text = rapid.SampledFrom([]string{"nil", "doc-absent", "doc-null"}).Draw(rt, "noschema"), ""
		}
		o := judgeSchemaForm(target, name, text, form)
		meta := form != "nil" && form != "doc-absent" && form != "doc-null" && passesMeta(name, text)
		kSchema.Check(rt, SchemaCase{Target: target, Name: encStr(name), Schema: encStr(text), Form: form}, meta, append([]string{"schema:arbitrary", "schema:form:" + form}, schemaClasses("arbitrary", o, meta)...)...)
	})

	// whole definitions with several parameters, built in Go or travelling as JSON documents
	rec.Rapid(t, "def", rec.N(1200, 10000), func(rt *rapid.T) {
		c, nt, cl := genDef(rt)
		m.kDef.Check(rt, c, nt, cl...)
		m.cDef.offer(c)
	})

	// histories of conversions whose definitions share names / refer to one another's names
	rec.Rapid(t, "convseq", rec.N(1500, 12000), func(rt *rapid.T) {
		c, nt, cl := genConvSeq(rt)
		m.kConvSeq.Check(rt, c, nt, cl...)
		m.cConvSeq.offer(c)
	})

	// independent cases judged from 8 goroutines at once (state shared between conversions)
	m.cSchema.run(t, 8, 3, 64)
	m.cABI.run(t, 8, 2, 32)
	m.cConvSeq.run(t, 8, 2, 32)
	m.cDef.run(t, 8, 2, 32)
}

// more holds the kinds for histories and concurrency (registered in TestReplay too).
type more struct {
	kDef     *evid.Kind[DefCase]
	cDef     *collector[DefCase]
	kConvSeq *evid.Kind[ConvSeqCase]
	kShared  *evid.Kind[SharedCase]
	cSchema  *collector[SchemaCase]
	cABI     *collector[ABICase]
	cConvSeq *collector[ConvSeqCase]
	nShared  int
}

func moreKinds(rec *evid.Recorder, on bool) *more {
	max := func(n int) int {
		if on {
			return n
		}
		return 0
	}
	return &more{
		kDef:     evid.NewKind(rec, "def", judgeDef).DeclareEach(),
		cDef:     newCollector(rec, "concurrent-def", judgeDef, max(64)),
		kConvSeq: evid.NewKind(rec, "convseq", judgeConvSeq).DeclareEach(),
		kShared:  evid.NewKind(rec, "shared", judgeShared).DeclareEach(),
		cSchema:  newCollector(rec, "concurrent-schema", judgeSchema, max(256)),
		cABI:     newCollector(rec, "concurrent-abi", judgeABI, max(96)),
		cConvSeq: newCollector(rec, "concurrent-convseq", judgeConvSeq, max(64)),
	}
}

func schemaClasses(src string, o schemaOutcome, meta bool) []string {
	var cl []string
	if meta {
		cl = append(cl, src+":passes-meta-schema")
	} else {
		cl = append(cl, src+":fails-meta-schema")
	}
	if o.accepted {
		cl = append(cl, src+":converted")
	} else {
		cl = append(cl, src+":error")
		if meta {
			cl = append(cl, src+":error-behind-meta-schema")
		}
	}
	if o.finding != nil {
		cl = append(cl, "inconsistent:"+o.finding.class)
	}
	return cl
}

func TestReplay(t *testing.T) {
	rec := evid.Start("C20", rule)
	evid.NewKind(rec, "abi", judgeABI)
	evid.NewKind(rec, "schema", judgeSchema).DeclareEach()
	moreKinds(rec, false)
	rec.Replay(t)
}

// FuzzSchema is the coverage-guided target (thorough tier only): target selector,
// parameter name and schema text into the same oracle as kind "schema".
func FuzzSchema(f *testing.F) {
	seeds := []string{
		`{"type":"integer","details":{"type":"uint256"}}`,
		`{"oneOf":[{"type":"string"},{"type":"integer"}],"details":{"type":"uint256","internalType":"uint256"}}`,
		`{"type":"string","details":{"type":"string","indexed":true}}`,
		`{"type":"array","details":{"type":"string[][]"},"items":{"type":"array","items":{"type":"string"}}}`,
		`{"type":"array","details":{"type":"uint256[]"}}`,
		`{"type":"object","details":{"type":"tuple"},"properties":{"a":{"type":"string","details":{"type":"string","index":0}},"b":{"oneOf":[{"type":"string"},{"type":"boolean"}],"details":{"type":"bool","index":1}}}}`,
		`{"type":"array","details":{"type":"tuple[][]"},"items":{"type":"array","items":{"type":"object","properties":{"a":{"type":"string","details":{"type":"string","index":0}}}}}}`,
		`{"type":"array","details":{"type":"tuple[]"},"items":{"type":"object","properties":{"a":{"type":"string","details":{"type":"string"}}}}}`,
		`{"type":"array","details":{"type":"tuple[]"},"items":{"type":"object","properties":{"a":{"type":"string","details":{"type":"string","index":7}}}}}`,
		`{"type":"array","details":{"type":"tuple[]"},"items":{"type":"object","properties":{"a":{"type":"string","details":{"type":"string","index":0}},"b":{"type":"string","details":{"type":"string","index":0}}}}}`,
		`{"type":"array","details":{"type":"tuple[]"},"items":{"type":"object","properties":{"a":{"type":"string"}}}}`,
		`{"type":"array","details":{"type":"tuple[]"},"items":{"type":"object","properties":{"a":true}}}`,
		`{"type":"array","details":{"type":"uint256[]"},"items":true}`,
		`{"type":"integer","details":{"type":"tuple"}}`,
		`{"type":"object","details":{"type":"uint256"}}`,
		`{"type":"integer","details":{"type":"bool"}}`,
		`{"type":"string","details":{"type":"foobar"}}`,
		`{"type":"integer","detailz":{"type":"uint256"}}`,
		`{#!`, `foobar`, ``, `null`, `true`, `[]`, `{}`, `{"$ref":"#"}`, `{"$ref":"#/$defs/a","$defs":{"a":{"$ref":"#/$defs/a"}}}`,
	}
	for i, s := range seeds {
		f.Add(uint8(i), "p", s)
	}
	for i := 0; i < 4; i++ { // the same through a JSON document; no schema at all
		f.Add(uint8(13*4+i), "p", seeds[5])
		f.Add(uint8(14*4+i), "p", "")
		f.Add(uint8(15*4+i), "p", "")
		f.Add(uint8(15*4+i), "", "")
	}
	rec := evid.Start("C20", rule)
	k := evid.NewKind(rec, "schema", judgeSchema)
	f.Fuzz(func(t *testing.T, sel uint8, name string, schema string) {
		if len(schema) > 16<<10 || len(name) > 256 {
			return
		}
		target := targets[int(sel)%len(targets)]
		form := ""
		switch (int(sel) / len(targets)) % 16 {
		case 13:
			form = "doc"
		case 14:
			form, schema = "nil", ""
		case 15:
			form, schema = []string{"doc-absent", "doc-null"}[len(name)%2], ""
		}
		if o := judgeSchemaForm(target, name, schema, form); len(o.vs) > 0 {
			k.Fail(t, SchemaCase{Target: target, Name: encStr(name), Schema: encStr(schema), Form: form}, o.vs)
		}
	})
}
