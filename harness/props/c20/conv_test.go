package c20

import (
	"context"
	"crypto/sha256"
	"encoding/json"
	"fmt"
	"regexp"
	"sort"
	"strings"
	"sync"
	"testing"

	"github.com/hyperledger/firefly-common/pkg/fftypes"
	"github.com/hyperledger/firefly-signer/pkg/abi"
	"github.com/hyperledger/firefly-signer/pkg/ffi2abi"
	"pgregory.net/rapid"

	"verifharness/evid"
)

// ---------------------------------------------------------------------------------------------
// kind "convseq": a HISTORY of FFI -> ABI conversions in one process whose definitions are
// RELATED: the same parameter name under different schemas (well-formed, mutated), schemas
// that `$ref` the name of a parameter of another definition of the sequence, the same
// definition several times.  Every step is judged like a case of kind "schema" (no panic,
// provably inconsistent => error, success => usable entry), and in addition
//
//   - a schema that refers, with "$ref", to ANOTHER document (an identifier-like reference
//     that is neither a fragment nor the parameter's own name) cannot be resolved when the
//     definition is converted on its own, so its conversion must fail wherever it stands in
//     the history (nothing an earlier conversion registered may satisfy it);
//   - the same definition gives the same verdict and the same entry at every position;
//   - a successful conversion returns the parameter under exactly the name it was given.
//
// Names carry a tag derived from a digest of everything the generator drew, so that two
// cases never share a name: state a faulty library keeps per name cannot leak from one case
// (or shrink candidate) into another, and a saved failing case fails again on its own.
// ---------------------------------------------------------------------------------------------

type ConvSeqCase struct {
	Steps []SchemaCase `json:"steps"`
}

var foreignRef = regexp.MustCompile(`^[A-Za-z_$][A-Za-z0-9_$]*$`)

// foreignRefs lists the "$ref" values of a schema that name another document: identifier-like
// (no scheme, no path, no fragment, no extension) and different from the parameter's own name.
func foreignRefs(v interface{}, own string, out *[]string) {
	switch vt := v.(type) {
	case map[string]interface{}:
		for k, child := range vt {
			if s, ok := child.(string); ok && k == "$ref" && foreignRef.MatchString(s) && s != own {
				*out = append(*out, s)
			}
			foreignRefs(child, own, out)
		}
	case []interface{}:
		for _, child := range vt {
			foreignRefs(child, own, out)
		}
	}
}

func entryText(e *abi.Entry) string {
	b, err := json.Marshal(e)
	if err != nil {
		return "!unmarshalable: " + err.Error()
	}
	return string(b)
}

func judgeConvSeq(c ConvSeqCase) (vs []evid.Violation) {
	type seen struct {
		step     int
		accepted bool
		entry    string
	}
	first := map[SchemaCase]seen{}
	for i, st := range c.Steps {
		name, schema := decStr(st.Name), decStr(st.Schema)
		o := judgeSchemaForm(st.Target, name, schema, st.Form)
		for _, v := range o.vs {
			v.Detail = fmt.Sprintf("step %d of %d: %s", i, len(c.Steps), v.Detail)
			vs = append(vs, v)
		}
		if len(vs) > 0 {
			return vs
		}
		cur := seen{step: i, accepted: o.accepted}
		if o.accepted && o.entry != nil {
			cur.entry = entryText(o.entry)
			params := o.entry.Inputs
			if st.Target == "method-return" {
				params = o.entry.Outputs
			}
			if len(params) != 1 || params[0] == nil || params[0].Name != name {
				got := "?"
				if len(params) == 1 && params[0] != nil {
					got = params[0].Name
				}
				vs = append(vs, evid.V("name-preserved", "step %d: parameter %q comes back from the conversion as %q", i, name, got))
			}
			if tree, ok := parseJSON(schema); ok {
				// the entry is the conversion of THIS schema (not of one converted earlier under the same name)
				if ety, isStr := asMap(asMap(tree)["details"])["type"].(string); isStr && !hasCaseVariantKey(tree) && len(params) == 1 && params[0] != nil && params[0].Type != ety {
					vs = append(vs, evid.V("entry-matches-schema", "step %d: the schema of parameter %q says details.type %q, the converted parameter has type %q", i, name, ety, params[0].Type))
				}
				var refs []string
				foreignRefs(tree, name, &refs)
				if len(refs) > 0 {
					sort.Strings(refs)
					vs = append(vs, evid.V("verdict-independent-of-history", "step %d of %d: the schema of parameter %q refers to another document (\"$ref\":%q) which does not exist when this definition is converted on its own, yet the conversion succeeds after the earlier conversions of the sequence: %s", i, len(c.Steps), name, refs[0], short(schema)))
				}
			}
		}
		if f, ok := first[st]; ok {
			if f.accepted != cur.accepted {
				vs = append(vs, evid.V("verdict-independent-of-history", "the same definition (%s %q) is %s at step %d and %s at step %d: %s", st.Target, name, verdictWord(f.accepted), f.step, verdictWord(cur.accepted), i, short(schema)))
			} else if f.entry != cur.entry {
				vs = append(vs, evid.V("verdict-independent-of-history", "the same definition (%s %q) converts to %s at step %d and to %s at step %d", st.Target, name, f.entry, f.step, cur.entry, i))
			}
		} else {
			first[st] = cur
		}
		if len(vs) > 0 {
			return vs
		}
	}
	return vs
}

func verdictWord(accepted bool) string {
	if accepted {
		return "accepted"
	}
	return "rejected"
}

func genConvSeq(rt *rapid.T) (ConvSeqCase, bool, []string) {
	type def struct {
		target string
		name   int // index into names
		schema map[string]interface{}
		ref    int // -1: none; else index into names; -2: own name; -3: "#"
		role   string
		form   string // "" or a form without a schema ("nil", "doc-absent", "doc-null"; schema is nil then)
	}
	baseNames := []string{genIdent(rt, "cs.nameA"), genIdent(rt, "cs.nameB"), genName(rt, "cs.nameC"), genIdent(rt, "cs.nameD")}
	well := func(l string) map[string]interface{} {
		p := genParam(rt, l, "p", 2)
		return schemaFor(p, nil)
	}
	var defs []def
	tgt := func(l string) string { return rapid.SampledFrom(targets).Draw(rt, l) }
	defs = append(defs,
		def{tgt("cs.t0"), 0, well("cs.s0"), -1, "well-formed", ""},
		def{tgt("cs.t1"), 0, well("cs.s1"), -1, "same-name-other-schema", ""},
		def{tgt("cs.t2"), 1, well("cs.s2"), -1, "well-formed", ""},
		def{tgt("cs.t3"), 2, well("cs.s3"), -1, "well-formed", ""})
	{ // the same name again under a mutated schema
		m := well("cs.s4")
		op := "none"
		for try := 0; try < 4 && op == "none"; try++ {
			op = mutateSchema(rt, m, fmt.Sprintf("cs.mut%d", try))
		}
		defs = append(defs, def{tgt("cs.t4"), 0, m, -1, "same-name-mutated", ""})
	}
	// references to the names of other definitions, to the own name, to the own document
	defs = append(defs,
		def{tgt("cs.t5"), 3, well("cs.s5"), rapid.IntRange(0, 1).Draw(rt, "cs.ref5"), "ref-to-other-name", ""},
		def{tgt("cs.t6"), 1, well("cs.s6"), 0, "ref-to-other-name", ""},
		def{tgt("cs.t7"), 0, well("cs.s7"), -2, "ref-to-own-name", ""},
		def{tgt("cs.t8"), 3, well("cs.s8"), -3, "ref-to-own-document", ""},
		// a name converted under a schema elsewhere in the history, here WITHOUT any schema
		def{tgt("cs.t9"), rapid.IntRange(0, 1).Draw(rt, "cs.name9"), nil, -1, "same-name-no-schema", rapid.SampledFrom([]string{"nil", "doc-absent", "doc-null"}).Draw(rt, "cs.form9")})
	n := rapid.IntRange(3, 9).Draw(rt, "cs.len")
	picks := make([]int, n)
	for i := range picks {
		switch rapid.IntRange(0, 5).Draw(rt, fmt.Sprintf("cs.pick%d.how", i)) {
		case 0:
			if i > 0 {
				picks[i] = picks[rapid.IntRange(0, i-1).Draw(rt, fmt.Sprintf("cs.pick%d.again", i))]
				break
			}
			fallthrough
		default:
			picks[i] = rapid.IntRange(0, len(defs)-1).Draw(rt, fmt.Sprintf("cs.pick%d", i))
		}
	}
	refAt := make([]int, len(defs))
	for i, d := range defs {
		if d.ref != -1 {
			refAt[i] = rapid.IntRange(0, 1<<20).Draw(rt, fmt.Sprintf("cs.refAt%d", i))
		}
	}
	// the tag: a digest of everything drawn
	var sb strings.Builder
	for _, d := range defs {
		fmt.Fprintf(&sb, "%s|%d|%s|%d|%s;", d.target, d.name, marshal(d.schema), d.ref, d.form)
	}
	fmt.Fprintf(&sb, "%q|%v|%v", baseNames, picks, refAt)
	digest := sha256.Sum256([]byte(sb.String()))
	tag := fmt.Sprintf("%x", digest[:5])
	names := make([]string, len(baseNames))
	for i, b := range baseNames {
		names[i] = b + "_" + tag
	}
	steps := make([]SchemaCase, len(defs))
	for i, d := range defs {
		switch {
		case d.ref >= 0:
			addRefAt(d.schema, names[d.ref], refAt[i])
		case d.ref == -2:
			addRefAt(d.schema, names[d.name], refAt[i])
		case d.ref == -3:
			addRefAt(d.schema, "#", refAt[i])
		}
		if d.form != "" {
			steps[i] = SchemaCase{Target: d.target, Name: encStr(names[d.name]), Form: d.form}
			continue
		}
		steps[i] = SchemaCase{Target: d.target, Name: encStr(names[d.name]), Schema: encStr(marshal(d.schema))}
	}
	var c ConvSeqCase
	refAfterTarget, repeat, sameName, noSchemaAfter := false, false, false, false
	var seenNames []int
	for i, pk := range picks {
		c.Steps = append(c.Steps, steps[pk])
		d := defs[pk]
		if d.ref >= 0 {
			for _, sn := range seenNames {
				if sn == d.ref {
					refAfterTarget = true
				}
			}
		}
		for _, sn := range seenNames {
			if sn == d.name {
				sameName = true
				if d.form != "" {
					noSchemaAfter = true
				}
			}
		}
		for j := 0; j < i; j++ {
			if picks[j] == pk {
				repeat = true
			}
		}
		if d.ref == -1 {
			seenNames = append(seenNames, d.name)
		}
	}
	var cl []string
	add := func(b bool, l string) {
		if b {
			cl = append(cl, l)
		}
	}
	add(refAfterTarget, "convseq:$ref-to-a-name-converted-earlier")
	add(sameName, "convseq:same-name-converted-before")
	add(repeat, "convseq:same-definition-repeated")
	add(noSchemaAfter, "convseq:no-schema-under-a-name-converted-before")
	add(!isIdentName(baseNames[2]), "convseq:wide-name")
	return c, refAfterTarget || sameName, cl
}

// addRefAt is addRef with the position chosen by a number drawn earlier (before the names were known).
func addRefAt(root map[string]interface{}, ref string, pos int) {
	var objs []jsonObj
	collectObjects(root, "", &objs)
	var cands []jsonObj
	for _, o := range objs {
		if o.path == "" || strings.HasSuffix(o.path, "/items") || (strings.Contains(o.path, "/properties/") && !strings.HasSuffix(o.path, "/details") && !strings.Contains(o.path, "/oneOf/")) {
			cands = append(cands, o)
		}
	}
	o := cands[pos%len(cands)]
	if pos%3 == 0 {
		o = cands[0] // the root, one time in three
	}
	o.m["$ref"] = ref
}

// ---------------------------------------------------------------------------------------------
// kind "shared": ONE interface definition used by several goroutines at once.  The FFI produced
// from a generated ABI is converted back, entry by entry, by N goroutines that all hold the same
// *fftypes.FFIMethod / FFIEventDefinition / FFIErrorDefinition objects, and the same validated
// *abi.ABI is converted to FFI by all of them; every goroutine's answers must equal the answers
// of the sequential run.  (The ABI is validated before it is shared: pkg/abi fills the parsed
// type trees of a Parameter lazily, which is the business of the properties about pkg/abi.)
// ---------------------------------------------------------------------------------------------

type SharedCase struct {
	ABI     []E `json:"abi"`
	Workers int `json:"workers"`
}

func jsonText(f interface{}) string {
	b, err := json.Marshal(f)
	if err != nil {
		return "!unmarshalable: " + err.Error()
	}
	return string(b)
}

func judgeShared(c SharedCase) (vs []evid.Violation) {
	raw, err := json.Marshal(c.ABI)
	if err != nil {
		return []evid.Violation{evid.V("harness", "marshal: %v", err)}
	}
	var a abi.ABI
	if err := json.Unmarshal(raw, &a); err != nil {
		return []evid.Violation{evid.V("harness", "ABI JSON does not load: %v", err)}
	}
	ctx := context.Background()
	if err := a.Validate(); err != nil {
		return []evid.Violation{evid.V("harness", "generated ABI does not validate: %v", err)}
	}
	var ffi *fftypes.FFI
	if pv := evid.Guard("abi-to-ffi-no-panic", func() { ffi, err = ffi2abi.ConvertABIToFFI(ctx, "ns", "name", "v1", "generated", &a) }); pv != nil {
		return append(vs, *pv)
	}
	if err != nil || ffi == nil {
		return append(vs, evid.V("abi-to-ffi", "a valid ABI is rejected by ConvertABIToFFI: %v", err))
	}
	// answers of one goroutine: the FFI text, then one line per definition converted back
	answers := func() (out []string) {
		f, err := ffi2abi.ConvertABIToFFI(ctx, "ns", "name", "v1", "generated", &a)
		if err != nil {
			out = append(out, "error: "+err.Error())
		} else {
			// the definitions come back in the iteration order of a map: compare them as a set
			var parts []string
			for _, m := range f.Methods {
				parts = append(parts, "method "+jsonText(m))
			}
			for _, ev := range f.Events {
				parts = append(parts, "event "+jsonText(ev))
			}
			for _, er := range f.Errors {
				parts = append(parts, "error "+jsonText(er))
			}
			sort.Strings(parts)
			out = append(out, strings.Join(parts, "\n"))
		}
		one := func(e *abi.Entry, err error) {
			if err != nil {
				out = append(out, "error: "+err.Error())
			} else {
				sig, _ := e.Signature()
				out = append(out, entryText(e)+" "+sig+" "+ffi2abi.ABIMethodToSignature(e))
			}
		}
		for _, m := range ffi.Methods {
			one(ffi2abi.ConvertFFIMethodToABI(ctx, m))
		}
		for _, ev := range ffi.Events {
			one(ffi2abi.ConvertFFIEventDefinitionToABI(ctx, &ev.FFIEventDefinition))
		}
		for _, er := range ffi.Errors {
			one(ffi2abi.ConvertFFIErrorDefinitionToABI(ctx, &er.FFIErrorDefinition))
		}
		return out
	}
	var want []string
	if pv := evid.Guard("shared-no-panic", func() { want = answers() }); pv != nil {
		return append(vs, *pv)
	}
	workers := c.Workers
	if workers < 2 {
		workers = 2
	}
	var mu sync.Mutex
	var wg sync.WaitGroup
	start := make(chan struct{})
	for w := 0; w < workers; w++ {
		wg.Add(1)
		go func(w int) {
			defer wg.Done()
			<-start
			for round := 0; round < 2; round++ {
				var got []string
				pv := evid.Guard("shared-no-panic", func() { got = answers() })
				mu.Lock()
				if pv != nil {
					vs = append(vs, *pv)
				} else if len(got) != len(want) {
					vs = append(vs, evid.V("shared-definition-concurrent-use", "goroutine %d: %d answers, the sequential run gave %d", w, len(got), len(want)))
				} else {
					for i := range got {
						if got[i] != want[i] {
							vs = append(vs, evid.V("shared-definition-concurrent-use", "goroutine %d of %d, all converting the same definition objects: answer %d is %s, the sequential run gave %s", w, workers, i, short(got[i]), short(want[i])))
							break
						}
					}
				}
				stop := len(vs) > 0
				mu.Unlock()
				if stop {
					return
				}
			}
		}(w)
	}
	close(start)
	wg.Wait()
	if len(vs) > 1 {
		vs = vs[:1]
	}
	return vs
}

// ---------------------------------------------------------------------------------------------
// concurrent kinds: batches of independent cases judged from several goroutines at once
// (evid.ParallelJudge).  They are declared before each evaluation (DeclareEach): the Go run time
// ends the whole process on an unsynchronised map access ("fatal error: concurrent map writes"),
// which recover() cannot stop - the driver then attributes the death to the declared batch.
// ---------------------------------------------------------------------------------------------

type collector[C any] struct {
	k     *evid.Kind[evid.Batch[C]]
	cases []C
	max   int
}

func newCollector[C any](rec *evid.Recorder, name string, judge func(C) []evid.Violation, max int) *collector[C] {
	return &collector[C]{k: evid.NewKind(rec, name, evid.ParallelJudge(judge)).DeclareEach(), max: max}
}

func (p *collector[C]) offer(c C) {
	if len(p.cases) < p.max {
		p.cases = append(p.cases, c)
	}
}

func (p *collector[C]) run(t *testing.T, workers, rounds, batch int) {
	t.Run("concurrent", func(t *testing.T) {
		for lo := 0; lo+1 < len(p.cases); lo += batch {
			hi := lo + batch
			if hi > len(p.cases) {
				hi = len(p.cases)
			}
			p.k.Must(t, evid.Batch[C]{Cases: p.cases[lo:hi], Workers: workers, Rounds: rounds}, true, "concurrent-batch")
		}
	})
}
