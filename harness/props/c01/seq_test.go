package c01

import (
	"bytes"
	"encoding/hex"
	"fmt"

	"github.com/hyperledger/firefly-signer/pkg/secp256k1"

	"verifharness/evid"
)

// ---- kind "history": a SEQUENCE of signings in one process.
//
// Every result handed out earlier must still be the specification bytes after any
// number of later signings (no shared/pooled output buffers), the caller may reuse
// its own data buffer after a call without changing what was returned, scribbling
// over a returned result must not influence later signings, and the same case
// signed again at the end gives the same bytes as the first time.
// Oracle: the per-case judge (specification bytes) + snapshots taken right after each call.

type SeqCase struct {
	Steps []Case `json:"steps"`
}

func judgeSeq(c SeqCase) (vs []evid.Violation) {
	type kept struct {
		out      []byte // the slice the library returned (NOT a copy)
		payload  []byte // SignaturePayload().Bytes() as returned
		snapOut  []byte
		snapPayl []byte
	}
	var keep []kept
	for i, st := range c.Steps {
		keyBytes, _ := hex.DecodeString(st.Key)
		kp := secp256k1.KeyPairFromBytes(keyBytes)
		tx := st.Tx.Lib()
		sp := libPayload(tx, st.Mode, st.ChainID)
		out, err := libSign(tx, kp, st.Mode, st.ChainID)
		if err != nil {
			return append(vs, evid.V("sign-succeeds", "step %d: %v", i, err))
		}
		k := kept{out: out, payload: sp.Bytes(), snapOut: append([]byte{}, out...), snapPayl: append([]byte{}, sp.Bytes()...)}
		keep = append(keep, k)
	}
	for i, k := range keep {
		if !bytes.Equal(k.out, k.snapOut) {
			vs = append(vs, evid.V("result-stable-across-calls", "the signed transaction returned by step %d (mode %s) was %s right after the call and reads %s after %d later signings", i, c.Steps[i].Mode, short(k.snapOut), short(k.out), len(keep)-1-i))
		}
		if !bytes.Equal(k.payload, k.snapPayl) {
			vs = append(vs, evid.V("payload-stable-across-calls", "the signature payload returned by step %d changed after later calls", i))
		}
	}
	if len(vs) > 0 {
		return vs
	}
	// scribble over every earlier result, then every step again: same bytes as the first time, and the full oracle
	for _, k := range keep {
		for j := range k.out {
			k.out[j] = 0xee
		}
		for j := range k.payload {
			k.payload[j] = 0xee
		}
	}
	for i, st := range c.Steps {
		keyBytes, _ := hex.DecodeString(st.Key)
		out, err := libSign(st.Tx.Lib(), secp256k1.KeyPairFromBytes(keyBytes), st.Mode, st.ChainID)
		if err != nil || !bytes.Equal(out, keep[i].snapOut) {
			vs = append(vs, evid.V("deterministic-across-history", "step %d signed again at the end of the history gives different bytes (err=%v): first %s now %s", i, err, short(keep[i].snapOut), short(out)))
		}
		if jv := judge(st); len(jv) > 0 {
			vs = append(vs, evid.V("history:"+jv[0].Clause, "step %d judged after the history: %s", i, jv[0].Detail))
		}
	}
	return vs
}

var _ = fmt.Sprintf
