// Package c01 decides property C01: every signing mode returns exactly the
// specification wire bytes with a canonical low-S signature that verifies and
// recovers to the signer; recovery returns the same fields; signing is
// deterministic and does not modify the caller's transaction.
//
// Oracle: ref/rlpref (Yellow Paper RLP) + ref/secp (own secp256k1 over math/big)
// + txmodel (specification preimages) — none of which use pkg/rlp, pkg/secp256k1
// or btcec.
package c01

import (
	"bytes"
	"context"
	"encoding/hex"
	"encoding/json"
	"fmt"
	"math/big"
	"testing"

	"github.com/hyperledger/firefly-signer/pkg/ethsigner"
	"github.com/hyperledger/firefly-signer/pkg/ethtypes"
	"github.com/hyperledger/firefly-signer/pkg/secp256k1"
	"pgregory.net/rapid"

	"verifharness/evid"
	"verifharness/gen"
	"verifharness/ref/rlpref"
	"verifharness/ref/secp"
	"verifharness/txmodel"
)

const rule = "a (transaction, key, chain id, mode) case is non-trivial when at least one holds: data >= 56 bytes, an integer field >= 2^64, `to` absent, V >= 256 (chain id >= 111), R or S shorter than 32 bytes, chain id 0; distinct by hash of the case JSON"

type Case struct {
	KeyTrim bool       `json:"keyTrim,omitempty"` // hand the key over without its leading zero bytes
	Tx      txmodel.Tx `json:"tx"`
	Key     string     `json:"key"` // 32 bytes hex
	ChainID int64      `json:"chainId"`
	Mode    string     `json:"mode"`
}

func short(b []byte) string {
	if len(b) > 80 {
		return fmt.Sprintf("%x…(%d bytes)", b[:80], len(b))
	}
	return fmt.Sprintf("%x", b)
}

func libSign(tx *ethsigner.Transaction, kp *secp256k1.KeyPair, mode string, chainID int64) ([]byte, error) {
	switch mode {
	case txmodel.ModeLegacy:
		return tx.SignLegacyOriginal(kp)
	case txmodel.ModeEIP155:
		return tx.SignLegacyEIP155(kp, chainID)
	case txmodel.ModeEIP1559:
		return tx.SignEIP1559(kp, chainID)
	default:
		return tx.Sign(kp, chainID)
	}
}

func libPayload(tx *ethsigner.Transaction, mode string, chainID int64) *ethsigner.TransactionSignaturePayload {
	switch mode {
	case txmodel.ModeLegacy:
		return tx.SignaturePayloadLegacyOriginal()
	case txmodel.ModeEIP155:
		return tx.SignaturePayloadLegacyEIP155(chainID)
	case txmodel.ModeEIP1559:
		return tx.SignaturePayloadEIP1559(chainID)
	default:
		return tx.SignaturePayload(chainID)
	}
}

// snapshot captures everything observable about the caller's transaction.
func snapshot(tx *ethsigner.Transaction) string {
	f := func(h *ethtypes.HexInteger) string {
		if h == nil {
			return "nil"
		}
		return h.BigInt().String()
	}
	to := "nil"
	if tx.To != nil {
		to = hex.EncodeToString(tx.To[:])
	}
	data := "nil"
	if tx.Data != nil {
		data = "x" + hex.EncodeToString(tx.Data)
	}
	return fmt.Sprintf("n=%s gp=%s tip=%s cap=%s gas=%s val=%s to=%s data=%s from=%s", f(tx.Nonce), f(tx.GasPrice), f(tx.MaxPriorityFeePerGas), f(tx.MaxFeePerGas), f(tx.GasLimit), f(tx.Value), to, data, string(tx.From))
}

type sigInfo struct {
	r, s, v *big.Int
}

func judge(c Case) (vs []evid.Violation) {
	keyBytes, _ := hex.DecodeString(c.Key)
	d := new(big.Int).SetBytes(keyBytes)
	if c.KeyTrim {
		keyBytes = d.Bytes() // the same scalar in minimal big-endian form
	}
	kp := secp256k1.KeyPairFromBytes(keyBytes)
	px, py := secp.PubKey(d)
	refAddr := secp.Address(px, py)
	if !bytes.Equal(kp.Address[:], refAddr[:]) {
		vs = append(vs, evid.V("key-address", "KeyPair.Address %x, reference address of the scalar %x", kp.Address[:], refAddr[:]))
	}
	resolved := c.Tx.ResolveMode(c.Mode)
	preimage := c.Tx.Preimage(c.Mode, c.ChainID)
	hash := secp.Keccak256(preimage)

	// (i) signing payload
	tx := c.Tx.Lib()
	before := snapshot(tx)
	sp := libPayload(tx, c.Mode, c.ChainID)
	if !bytes.Equal(sp.Bytes(), preimage) {
		vs = append(vs, evid.V("preimage", "mode %s: SignaturePayload bytes %s, specification preimage %s", c.Mode, short(sp.Bytes()), short(preimage)))
	}
	if !bytes.Equal(sp.Hash(), hash) {
		vs = append(vs, evid.V("preimage-hash", "Hash() %x, keccak256(preimage) %x", []byte(sp.Hash()), hash))
	}

	// (ii) signed bytes
	out, err := libSign(tx, kp, c.Mode, c.ChainID)
	if err != nil {
		return append(vs, evid.V("sign-succeeds", "mode %s: %v", c.Mode, err))
	}
	raw := out
	if resolved == txmodel.ModeEIP1559 {
		if len(out) == 0 || out[0] != 0x02 {
			return append(vs, evid.V("type-byte", "EIP-1559 output does not start with 0x02: %s", short(out)))
		}
		raw = out[1:]
	}
	it, n, derr := rlpref.Decode(raw, true)
	if derr != nil || n != len(raw) || !it.IsList {
		return append(vs, evid.V("wire-canonical-rlp", "output is not exactly one canonical RLP list (err=%v consumed=%d of %d): %s", derr, n, len(raw), short(out)))
	}
	wantLen := 9
	if resolved == txmodel.ModeEIP1559 {
		wantLen = 12
	}
	if len(it.List) != wantLen {
		return append(vs, evid.V("wire-arity", "mode %s: %d list elements, specification has %d", resolved, len(it.List), wantLen))
	}
	for i := wantLen - 3; i < wantLen; i++ {
		e := it.List[i]
		if e.IsList {
			return append(vs, evid.V("wire-signature-shape", "signature element %d is a list", i))
		}
		if len(e.Str) > 0 && e.Str[0] == 0 {
			vs = append(vs, evid.V("wire-signature-minimal", "signature element %d has a leading zero byte: %x", i, e.Str))
		}
	}
	sig := sigInfo{
		v: new(big.Int).SetBytes(it.List[wantLen-3].Str),
		r: new(big.Int).SetBytes(it.List[wantLen-2].Str),
		s: new(big.Int).SetBytes(it.List[wantLen-1].Str),
	}
	if !secp.ValidScalar(sig.r) || !secp.ValidScalar(sig.s) {
		return append(vs, evid.V("signature-range", "R or S outside [1,n-1]: r=%x s=%x", sig.r, sig.s))
	}
	if !secp.LowS(sig.s) {
		vs = append(vs, evid.V("low-s", "S is in the upper half of the curve order: %x", sig.s))
	}
	// V convention
	var parity uint
	v0 := txmodel.V(resolved, c.ChainID, 0)
	v1 := txmodel.V(resolved, c.ChainID, 1)
	switch {
	case sig.v.Cmp(v0) == 0:
		parity = 0
	case sig.v.Cmp(v1) == 0:
		parity = 1
	default:
		return append(vs, evid.V("v-convention", "mode %s chain %d: V=%s, specification allows %s or %s", resolved, c.ChainID, sig.v, v0, v1))
	}
	// exact bytes: specification wire form with this signature
	want := c.Tx.Wire(c.Mode, c.ChainID, sig.v, sig.r, sig.s)
	if !bytes.Equal(out, want) {
		vs = append(vs, evid.V("wire-exact", "mode %s: output %s differs from the specification wire form %s", resolved, short(out), short(want)))
	}
	// the signature verifies over the specification hash and recovers to the key's address
	rx, ry, ok := secp.Recover(hash, sig.r, sig.s, parity)
	if !ok || rx.Cmp(px) != 0 || ry.Cmp(py) != 0 {
		vs = append(vs, evid.V("recovers-to-signer", "reference recovery with the parity V implies does not give the key's public key (ok=%v)", ok))
	}
	if !secp.Verify(hash, sig.r, sig.s, px, py) {
		vs = append(vs, evid.V("verifies", "signature does not verify over keccak256(specification preimage) under the key"))
	}

	// (iii) recovery by the library
	addr, rtx, rerr := ethsigner.RecoverRawTransaction(context.Background(), out, c.ChainID)
	if rerr != nil {
		vs = append(vs, evid.V("recover-own-output", "RecoverRawTransaction rejects the library's own output: %v", rerr))
	} else {
		if addr == nil || !bytes.Equal(addr[:], refAddr[:]) {
			vs = append(vs, evid.V("recover-address", "recovered %v want %x", addr, refAddr[:]))
		}
		if !bytes.Equal(rtx.Payload, preimage) {
			vs = append(vs, evid.V("recover-payload", "payload %s want preimage %s", short(rtx.Payload), short(preimage)))
		}
		cmpInt := func(name string, got *ethtypes.HexInteger, want *string) {
			w := new(big.Int)
			if want != nil {
				w.SetString(*want, 10)
			}
			if got.BigInt().Cmp(w) != 0 {
				vs = append(vs, evid.V("recover-fields", "%s: got %s want %s", name, got.BigInt(), w))
			}
		}
		cmpInt("nonce", rtx.Nonce, c.Tx.Nonce)
		cmpInt("gas", rtx.GasLimit, c.Tx.Gas)
		cmpInt("value", rtx.Value, c.Tx.Value)
		if resolved == txmodel.ModeEIP1559 {
			cmpInt("maxPriorityFeePerGas", rtx.MaxPriorityFeePerGas, c.Tx.Tip)
			cmpInt("maxFeePerGas", rtx.MaxFeePerGas, c.Tx.FeeCap)
		} else {
			cmpInt("gasPrice", rtx.GasPrice, c.Tx.GasPrice)
		}
		if (rtx.To == nil) != (c.Tx.To == nil) || (rtx.To != nil && !bytes.Equal(rtx.To[:], c.Tx.ToBytes())) {
			vs = append(vs, evid.V("recover-fields", "to: got %v want %v", rtx.To, c.Tx.To))
		}
		if !bytes.Equal(rtx.Data, c.Tx.DataBytes()) {
			vs = append(vs, evid.V("recover-fields", "data: got %s want %s", short(rtx.Data), short(c.Tx.DataBytes())))
		}
	}

	// (iv) determinism, from a fresh transaction and key pair
	out2, err2 := libSign(c.Tx.Lib(), secp256k1.KeyPairFromBytes(keyBytes), c.Mode, c.ChainID)
	if err2 != nil || !bytes.Equal(out, out2) {
		vs = append(vs, evid.V("deterministic", "second signing differs (err=%v): %s vs %s", err2, short(out), short(out2)))
	}
	// ... and signing the same object again
	out3, err3 := libSign(tx, kp, c.Mode, c.ChainID)
	if err3 != nil || !bytes.Equal(out, out3) {
		vs = append(vs, evid.V("deterministic-same-object", "re-signing the same transaction object differs (err=%v)", err3))
	}
	// (v) caller's transaction unchanged
	if after := snapshot(tx); after != before {
		vs = append(vs, evid.V("tx-unmodified", "transaction changed by signing:\n before %s\n after  %s", before, after))
	}
	// (vi) the automatic mode equals the mode the documentation prescribes
	if c.Mode == txmodel.ModeAuto {
		outR, errR := libSign(c.Tx.Lib(), kp, resolved, c.ChainID)
		if errR != nil || !bytes.Equal(outR, out) {
			vs = append(vs, evid.V("auto-mode", "Sign() differs from %s (err=%v)", resolved, errR))
		}
	}
	return vs
}

// ---- generators

func optInt(rt *rapid.T, label string, pAbsent int) *string {
	if rapid.IntRange(0, 99).Draw(rt, label+".absent") < pAbsent {
		return nil
	}
	s := gen.Uint(rt, label, 256).String()
	return &s
}

var nMinus1 = new(big.Int).Sub(secp.N, big.NewInt(1))

func genKey(rt *rapid.T) string {
	mode := rapid.IntRange(0, 9).Draw(rt, "key.mode")
	var d *big.Int
	switch {
	case mode == 0:
		// values are d-1 (the +1 below maps them into [1, n-1])
		d = rapid.SampledFrom([]*big.Int{big.NewInt(0), big.NewInt(1), new(big.Int).Sub(secp.N, big.NewInt(2)), new(big.Int).Sub(secp.N, big.NewInt(3)), new(big.Int).Set(secp.HalfN), new(big.Int).Sub(secp.HalfN, big.NewInt(1))}).Draw(rt, "key.special")
	case mode <= 2:
		// leading zero bytes
		nb := rapid.IntRange(1, 31).Draw(rt, "key.nbytes")
		d = new(big.Int).SetBytes(rapid.SliceOfN(rapid.Byte(), nb, nb).Draw(rt, "key.bytes"))
	default:
		d = new(big.Int).SetBytes(rapid.SliceOfN(rapid.Byte(), 32, 32).Draw(rt, "key.bytes32"))
	}
	d = new(big.Int).Mod(d, nMinus1) // never mutate the shared constants
	d.Add(d, big.NewInt(1))          // [1, n-1]
	b := make([]byte, 32)
	d.FillBytes(b)
	return hex.EncodeToString(b)
}

func genChainID(rt *rapid.T) int64 {
	mode := rapid.IntRange(0, 9).Draw(rt, "chain.mode")
	switch {
	case mode < 4:
		return rapid.SampledFrom([]int64{0, 1, 2, 109, 110, 111, 1337, 1 << 31, 1<<31 - 1, 1<<32 + 1, 1 << 53, 1<<53 - 1}).Draw(rt, "chain.special")
	case mode < 7:
		return int64(rapid.IntRange(0, 300).Draw(rt, "chain.small"))
	default:
		return rapid.Int64Range(0, 1<<53).Draw(rt, "chain.any")
	}
}

func genTx(rt *rapid.T, maxData int) txmodel.Tx {
	var t txmodel.Tx
	t.Nonce = optInt(rt, "nonce", 8)
	t.GasPrice = optInt(rt, "gasPrice", 15)
	t.Gas = optInt(rt, "gas", 8)
	t.Value = optInt(rt, "value", 15)
	feeMode := rapid.IntRange(0, 5).Draw(rt, "fee.mode")
	switch feeMode {
	case 0: // neither
	case 1: // explicit zeros
		z := "0"
		t.Tip, t.FeeCap = &z, &z
	case 2: // tip only
		t.Tip = optInt(rt, "tip", 0)
	case 3: // cap only
		t.FeeCap = optInt(rt, "cap", 0)
	default:
		t.Tip = optInt(rt, "tip", 0)
		t.FeeCap = optInt(rt, "cap", 0)
	}
	if rapid.IntRange(0, 3).Draw(rt, "to.absent") != 0 {
		var a []byte
		switch rapid.IntRange(0, 3).Draw(rt, "to.mode") {
		case 0:
			a = make([]byte, 20)
		case 1:
			a = append(make([]byte, 19), rapid.Byte().Draw(rt, "to.last"))
		default:
			a = gen.Bytes(rt, "to", 20)
		}
		s := hex.EncodeToString(a)
		t.To = &s
	}
	switch rapid.IntRange(0, 9).Draw(rt, "data.mode") {
	case 0: // nil
	case 1:
		s := ""
		t.Data = &s
	case 2:
		s := hex.EncodeToString([]byte{rapid.SampledFrom([]byte{0x00, 0x01, 0x7f, 0x80, 0x81, 0xff}).Draw(rt, "data.single")})
		t.Data = &s
	default:
		n := gen.Len(rt, "data.len", maxData)
		s := gen.HexBytes(rt, "data", n)
		t.Data = &s
	}
	return t
}

var modes = []string{txmodel.ModeLegacy, txmodel.ModeEIP155, txmodel.ModeEIP1559, txmodel.ModeAuto}

// grind perturbs the nonce until the library's signature has a short R or S, so
// that class is populated on purpose. The search uses the specification preimage.
func grind(c *Case, tries int) bool {
	keyBytes, _ := hex.DecodeString(c.Key)
	kp := secp256k1.KeyPairFromBytes(keyBytes)
	base := new(big.Int)
	if c.Tx.Nonce != nil {
		base.SetString(*c.Tx.Nonce, 10)
	}
	for i := 0; i < tries; i++ {
		n := new(big.Int).Add(base, big.NewInt(int64(i))).String()
		c.Tx.Nonce = &n
		sig, err := kp.Sign(c.Tx.Preimage(c.Mode, c.ChainID))
		if err != nil {
			return false
		}
		if len(sig.R.Bytes()) < 32 || len(sig.S.Bytes()) < 32 {
			return true
		}
	}
	return false
}

func classify(c Case) (nontrivial bool, classes []string) {
	classes = append(classes, "mode:"+c.Mode)
	add := func(cond bool, label string) {
		if cond {
			classes = append(classes, label)
			nontrivial = true
		}
	}
	add(len(c.Tx.DataBytes()) >= 56, "data>=56B")
	add(len(c.Tx.DataBytes()) >= 65535, "data>=65535B")
	add(c.Tx.To == nil, "to:absent")
	add(c.ChainID == 0, "chain:0")
	add(c.ChainID >= 111, "V>=256")
	add(c.ChainID >= 1<<31, "chain>=2^31")
	big64 := false
	absent := false
	for i, f := range []*string{c.Tx.Nonce, c.Tx.GasPrice, c.Tx.Gas, c.Tx.Value, c.Tx.Tip, c.Tx.FeeCap} {
		if f == nil {
			absent = absent || i < 4
			continue
		}
		v, _ := new(big.Int).SetString(*f, 10)
		if v.BitLen() > 64 {
			big64 = true
		}
	}
	add(big64, "int>=2^64")
	if absent {
		classes = append(classes, "int:absent")
	}
	// short R/S: look at what the library produces (classification only)
	keyBytes, _ := hex.DecodeString(c.Key)
	if sig, err := secp256k1.KeyPairFromBytes(keyBytes).Sign(c.Tx.Preimage(c.Mode, c.ChainID)); err == nil {
		add(len(sig.R.Bytes()) < 32, "R<32B")
		add(len(sig.S.Bytes()) < 32, "S<32B")
	}
	if keyBytes[0] == 0 {
		classes = append(classes, "key:leading-zero")
	}
	if c.Tx.Is1559() {
		classes = append(classes, "fees:1559")
	}
	return
}

func TestCheck(t *testing.T) {
	rec := evid.Start("C01", rule)
	defer rec.Finish()
	rec.Assume("oracle: txmodel preimages + ref/rlpref + ref/secp, independent of pkg/rlp, pkg/secp256k1 and btcec")
	rec.Assume("which valid low-S signature is produced is not asserted (any deterministic choice passes); chain ids above 2^53 are outside the quantifier")
	k := evid.NewKind(rec, "sign", judge)
	rec.Corpus(t)
	maxData := 70000
	kpar := evid.NewKind(rec, "concurrent", evid.ParallelJudge(judge))
	var pool []Case
	rec.Rapid(t, "sign", rec.N(1500, 12000), func(rt *rapid.T) {
		c := Case{Tx: genTx(rt, maxData), Key: genKey(rt), ChainID: genChainID(rt), Mode: rapid.SampledFrom(modes).Draw(rt, "mode")}
		c.KeyTrim = c.Key[:2] == "00" && rapid.Bool().Draw(rt, "keyTrim")
		if rapid.IntRange(0, 3).Draw(rt, "grind") == 0 {
			grind(&c, 700)
		}
		nt, cl := classify(c)
		if len(pool) < 72 && len(c.Tx.DataBytes()) >= 1024 {
			pool = append(pool, c)
		}
		k.Check(rt, c, nt, cl...)
	})
	// the same cases from many goroutines at once: verdicts must not depend on concurrent callers
	t.Run("concurrent", func(t *testing.T) {
		for lo := 0; lo+8 <= len(pool); lo += 24 {
			hi := lo + 24
			if hi > len(pool) {
				hi = len(pool)
			}
			kpar.Must(t, evid.Batch[Case]{Cases: pool[lo:hi], Workers: 8, Rounds: 3}, true, "concurrent-batch")
		}
	})
	// histories: earlier results must survive later signings
	kSeq := evid.NewKind(rec, "history", judgeSeq)
	rec.Rapid(t, "history", rec.N(250, 2500), func(rt *rapid.T) {
		n := rapid.IntRange(2, 5).Draw(rt, "steps")
		var sc SeqCase
		same1559 := 0
		for i := 0; i < n; i++ {
			c := Case{Tx: genTx(rt, 2000), Key: genKey(rt), ChainID: genChainID(rt), Mode: rapid.SampledFrom(modes).Draw(rt, "mode")}
			if c.Tx.ResolveMode(c.Mode) == txmodel.ModeEIP1559 {
				same1559++
			}
			sc.Steps = append(sc.Steps, c)
		}
		cl := "history:mixed-modes"
		if same1559 >= 2 {
			cl = "history:>=2-eip1559-steps"
		}
		kSeq.Check(rt, sc, true, cl)
	})
	// the exact data-length boundaries named in the quantifier, every mode
	t.Run("data-boundaries", func(t *testing.T) {
		one := "1"
		to := "00000000000000000000000000000000000000ff"
		for _, n := range []int{0, 1, 55, 56, 255, 256, 65535, 65536} {
			for _, first := range []byte{0x00, 0x7f, 0x80} {
				for _, m := range modes {
					data := bytes.Repeat([]byte{first}, n)
					ds := hex.EncodeToString(data)
					c := Case{Tx: txmodel.Tx{Nonce: &one, GasPrice: &one, Gas: &one, Value: &one, FeeCap: &one, To: &to, Data: &ds}, Key: "00000000000000000000000000000000000000000000000000000000000000a1", ChainID: 1337, Mode: m}
					nt, cl := classify(c)
					k.Must(t, c, nt, append(cl, "data-boundary-sweep")...)
				}
			}
		}
	})
}

func TestReplay(t *testing.T) {
	rec := evid.Start("C01", rule)
	evid.NewKind(rec, "sign", judge)
	evid.NewKind(rec, "concurrent", evid.ParallelJudge(judge))
	evid.NewKind(rec, "history", judgeSeq)
	rec.Replay(t)
}

var _ = json.Marshal
