package c07

import (
	"bytes"
	"crypto/sha256"
	"encoding/json"
	"fmt"
	"sync"

	"github.com/hyperledger/firefly-signer/pkg/keystorev3"
	"pgregory.net/rapid"

	"verifharness/evid"
	"verifharness/ref/v3ref"
)

// ---------------------------------------------------------------------------------------------
// kind "hist": a HISTORY in one process.  Several files - written by the library and by the
// independent implementation, some sharing salt and password under different cost parameters -
// are created and then read in a generated order: with the right password, with near-miss
// passwords, and as copies whose cost parameters were altered under the original MAC.
//
//   - every read gives the verdict the independent reader gives for that file and password
//     alone (key / error, never a key alongside an error), whatever was read or created before;
//   - every wallet handed out (created or read) is still what it was after everything that
//     happened later, after the caller overwrote its buffers, while several goroutines use it
//     at once, and after OTHER results were modified in place;
//   - the caller's bytes are never written to (readLib).
// ---------------------------------------------------------------------------------------------

type HistMember struct {
	// library-written: Ctor set; externally written: KDF set
	Ctor     string   `json:"ctor,omitempty"`
	Meta     []MetaOp `json:"meta,omitempty"`
	KDF      string   `json:"kdf,omitempty"`
	N        int      `json:"n,omitempty"`
	R        int      `json:"r,omitempty"`
	P        int      `json:"p,omitempty"`
	C        int      `json:"c,omitempty"`
	Salt     string   `json:"salt,omitempty"`
	IV       string   `json:"iv,omitempty"`
	ID       string   `json:"id,omitempty"`
	Secret   string   `json:"secret"`
	Password string   `json:"password"`
}

type HistStep struct {
	Member   int    `json:"member"`
	Password string `json:"password"`        // hex; the password used for this read
	Field    string `json:"field,omitempty"` // n | r | p | c: alter this cost parameter of the copy that is read (MAC untouched)
	Value    int64  `json:"value,omitempty"`
}

type HistCase struct {
	Members []HistMember `json:"members"`
	Steps   []HistStep   `json:"steps"`
}

type histWallet struct {
	what   string
	w      keystorev3.WalletFile
	secret []byte
	id     string
	meta   string
	json   string // canonical text of JSON()
	addr   string
}

func observe(what string, w keystorev3.WalletFile) (h histWallet, pv *evid.Violation) {
	h = histWallet{what: what, w: w}
	pv = evid.Guard("hist-accessors", func() {
		h.secret = append([]byte{}, w.PrivateKey()...)
		if id := w.GetID(); id != nil {
			h.id = id.String()
		}
		h.meta = canon(w.Metadata())
		h.json, _ = canonText(string(w.JSON()))
		if validScalar(h.secret) {
			if kp := w.KeyPair(); kp != nil {
				h.addr = hx(kp.Address[:])
			}
		}
	})
	return
}

func (h histWallet) same(when string) (vs []evid.Violation) {
	now, pv := observe(h.what, h.w)
	if pv != nil {
		return []evid.Violation{*pv}
	}
	if !bytes.Equal(now.secret, h.secret) {
		vs = append(vs, evid.V("result-stable", "%s: PrivateKey() was %x and is %x %s", h.what, h.secret, now.secret, when))
	}
	if now.id != h.id || now.addr != h.addr {
		vs = append(vs, evid.V("result-stable", "%s: id/address were %s/%s and are %s/%s %s", h.what, h.id, h.addr, now.id, now.addr, when))
	}
	if now.meta != h.meta {
		vs = append(vs, evid.V("result-stable", "%s: Metadata() was %s and is %s %s", h.what, h.meta, now.meta, when))
	}
	if now.json != h.json {
		vs = append(vs, evid.V("result-stable", "%s: JSON() was %s and is %s %s", h.what, h.json, now.json, when))
	}
	return vs
}

func judgeHist(c HistCase) (vs []evid.Violation) {
	type made struct {
		file   []byte
		secret []byte
		pw     []byte
		lib    bool
		intact func() bool
	}
	var all []histWallet
	members := make([]made, len(c.Members))
	// phase 1: create
	for i, m := range c.Members {
		secret, pw := unhx(m.Secret), unhx(m.Password)
		mm := made{secret: secret, pw: pw, intact: func() bool { return true }}
		if m.Ctor != "" {
			if (m.Ctor == "light" || m.Ctor == "standard") && !validScalar(secret) {
				return []evid.Violation{evid.V("harness", "keypair constructor with a secret that is not a valid scalar")}
			}
			w, intact, pv := constructKeep(m.Ctor, string(pw), secret)
			if pv != nil {
				return append(vs, *pv)
			}
			if isNilWallet(w) {
				return append(vs, evid.V("create", "constructor returned nil"))
			}
			if pv := evid.Guard("create-no-panic", func() {
				for _, op := range m.Meta {
					var v interface{}
					if err := json.Unmarshal([]byte(op.JSON), &v); err != nil {
						panic("harness: bad metadata JSON in case: " + err.Error())
					}
					w.Metadata()[op.Key] = v
				}
				mm.file = append([]byte{}, w.JSON()...)
			}); pv != nil {
				return append(vs, *pv)
			}
			mm.lib, mm.intact = true, intact
			h, pv := observe(fmt.Sprintf("wallet created as member %d (%s)", i, m.Ctor), w)
			if pv != nil {
				return append(vs, *pv)
			}
			all = append(all, h)
		} else {
			var err error
			mm.file, err = v3ref.Write(v3ref.Spec{KDF: m.KDF, N: m.N, R: m.R, P: m.P, C: m.C, DKLen: 32, Salt: unhx(m.Salt), IV: unhx(m.IV), Secret: secret, Password: pw, ID: m.ID})
			if err != nil {
				return []evid.Violation{evid.V("harness", "reference writer: %v", err)}
			}
		}
		members[i] = mm
	}
	for _, h := range all {
		vs = append(vs, h.same("after the later wallets were created")...)
	}
	if len(vs) > 0 {
		return vs
	}
	// phase 2: read
	for si, st := range c.Steps {
		if st.Member < 0 || st.Member >= len(members) {
			return []evid.Violation{evid.V("harness", "step %d names member %d", si, st.Member)}
		}
		m := members[st.Member]
		file, pw := m.file, unhx(st.Password)
		what := fmt.Sprintf("step %d (member %d, password %q", si, st.Member, pw)
		if st.Field != "" {
			var doc map[string]interface{}
			dec := json.NewDecoder(bytes.NewReader(file))
			dec.UseNumber()
			if err := dec.Decode(&doc); err != nil {
				return append(vs, evid.V("harness", "member file is not JSON: %v", err))
			}
			crypto, _ := doc["crypto"].(map[string]interface{})
			params, _ := crypto["kdfparams"].(map[string]interface{})
			old, ok := params[st.Field].(json.Number)
			if !ok {
				continue // the member has no such parameter (other KDF): nothing to alter
			}
			limit := int64(capRP)
			switch st.Field {
			case "n":
				limit = capN
			case "c":
				limit = capC
			}
			if st.Value > limit || (st.Field == "c" && st.Value <= 0) || old.String() == fmt.Sprint(st.Value) {
				continue
			}
			params[st.Field] = json.Number(fmt.Sprint(st.Value))
			file, _ = json.Marshal(doc)
			what += fmt.Sprintf(", %s %s -> %d", st.Field, old, st.Value)
		}
		what += ")"
		ref, rerr := v3ref.Read(file, pw)
		if rerr != nil {
			vs = append(vs, mustFail("history-verdict", what+": the independent reader rejects this file and password ("+rerr.Error()+")", file, pw)...)
			continue
		}
		w, err, pv := readLib("history-no-panic", file, pw)
		if pv != nil {
			return append(vs, *pv)
		}
		if err != nil || isNilWallet(w) {
			vs = append(vs, evid.V("history-verdict", "%s: the independent reader decrypts this file with this password, the library fails after what was read and created before: %v", what, err))
			continue
		}
		h, pv := observe("wallet read at "+what, w)
		if pv != nil {
			return append(vs, *pv)
		}
		if !bytes.Equal(h.secret, ref.Secret) {
			vs = append(vs, evid.V("history-key", "%s: PrivateKey() = %x, the independent reader derives %x", what, h.secret, ref.Secret))
			continue
		}
		if h.id != ref.ID {
			vs = append(vs, evid.V("history-id", "%s: GetID() = %s, the file says %s", what, h.id, ref.ID))
		}
		if validScalar(h.secret) && h.addr != refAddress(h.secret) {
			vs = append(vs, evid.V("history-address", "%s: KeyPair().Address = %s, independent derivation gives %s", what, h.addr, refAddress(h.secret)))
		}
		all = append(all, h)
	}
	if len(vs) > 0 {
		return vs
	}
	// phase 3: everything handed out is still what it was
	for _, h := range all {
		vs = append(vs, h.same("after the later reads (and after the caller overwrote the buffers it had passed in)")...)
	}
	for i, m := range members {
		if !m.intact() {
			vs = append(vs, evid.V("inputs-not-modified", "the key material handed to the constructor of member %d was written to", i))
		}
	}
	if len(vs) > 0 {
		return vs
	}
	// one wallet used by several goroutines at once (reads only): every answer equals the sequential one
	var mu sync.Mutex
	var wg sync.WaitGroup
	start := make(chan struct{})
	for g := 0; g < 4; g++ {
		wg.Add(1)
		go func(g int) {
			defer wg.Done()
			<-start
			for k := 0; k < len(all); k++ {
				h := all[(k+g)%len(all)]
				if d := h.same("while other goroutines read the same wallet"); len(d) > 0 {
					mu.Lock()
					vs = append(vs, d...)
					mu.Unlock()
					return
				}
			}
		}(g)
	}
	close(start)
	wg.Wait()
	if len(vs) > 0 {
		return vs
	}
	// results do not share storage: modify one in place, the others stay
	for i := range all {
		if pv := evid.Guard("hist-accessors", func() {
			b := all[i].w.PrivateKey()
			for x := range b {
				b[x] ^= 0x5A
			}
			md := all[i].w.Metadata()
			for k := range md {
				delete(md, k)
			}
			if md != nil {
				md["scribble"] = float64(i)
			}
		}); pv != nil {
			return append(vs, *pv)
		}
		for j, h := range all {
			if j != i {
				vs = append(vs, h.same(fmt.Sprintf("after the %s was modified in place", all[i].what))...)
			}
		}
		if len(vs) > 0 {
			return vs
		}
		again, pv := observe(all[i].what, all[i].w)
		if pv != nil {
			return append(vs, *pv)
		}
		all[i] = again
	}
	return vs
}

// ---- generator ----------------------------------------------------------------------------------

func genHist(rt *rapid.T, cheapLib bool) (HistCase, []string) {
	pwText, pwClass := genPassword(rt)
	pw := []byte(pwText)
	secret := genScalar(rt, "hist.key")
	kdf := rapid.SampledFrom([]string{"scrypt", "scrypt", "pbkdf2"}).Draw(rt, "hist.kdf")
	type cost struct{ n, r, p, c int }
	drawCost := func(l string) cost {
		return cost{n: 1 << rapid.IntRange(1, 9).Draw(rt, l+".nExp"), r: rapid.SampledFrom([]int{1, 8, 2}).Draw(rt, l+".r"), p: rapid.SampledFrom([]int{1, 2}).Draw(rt, l+".p"), c: rapid.IntRange(1, 256).Draw(rt, l+".c")}
	}
	costs := []cost{drawCost("hist.cost0"), drawCost("hist.cost1")}
	if costs[1] == costs[0] {
		costs[1].n, costs[1].c = costs[1].n*2, costs[1].c+1
	}
	nlib := rapid.IntRange(0, 2).Draw(rt, "hist.nlib")
	var ctors []string
	var metas [][]MetaOp
	for i := 0; i < nlib; i++ {
		ct := rapid.SampledFrom([]string{"light", "standard", "custom-light", "custom-standard"}).Draw(rt, fmt.Sprintf("hist.ctor%d", i))
		if cheapLib && ct == "light" {
			ct = "standard"
		}
		ctors = append(ctors, ct)
		ops, _ := genMeta(rt)
		var keep []MetaOp
		for _, op := range ops {
			if !coreFields[op.Key] {
				keep = append(keep, op)
			}
		}
		metas = append(metas, keep)
	}
	pw2, _ := genPassword(rt)
	nMembers := nlib + 4
	nsteps := rapid.IntRange(2, 7).Draw(rt, "hist.nsteps")
	type stepDraw struct {
		member int
		how    int
		wrong  int
		field  string
		value  int64
	}
	wrongs := genWrong(rt, pwText, 4)
	var sd []stepDraw
	for i := 0; i < nsteps; i++ {
		l := fmt.Sprintf("hist.step%d", i)
		d := stepDraw{member: rapid.IntRange(0, nMembers-1).Draw(rt, l+".member"), how: rapid.IntRange(0, 5).Draw(rt, l+".how")}
		switch d.how {
		case 3:
			if len(wrongs) > 0 {
				d.wrong = rapid.IntRange(0, len(wrongs)-1).Draw(rt, l+".wrong")
			}
		case 4, 5:
			d.field = rapid.SampledFrom([]string{"n", "r", "p", "c"}).Draw(rt, l+".field")
			switch d.field {
			case "n":
				d.value = rapid.SampledFrom([]int64{int64(costs[0].n), int64(costs[1].n), int64(costs[0].n) * 2, 1000, 3, 0, 1024, 4096}).Draw(rt, l+".n")
			case "r":
				d.value = rapid.SampledFrom([]int64{1, 2, 4, 8, 16, 0, 7}).Draw(rt, l+".r")
			case "p":
				d.value = rapid.SampledFrom([]int64{1, 2, 3, 6, 0}).Draw(rt, l+".p")
			default:
				d.value = rapid.SampledFrom([]int64{int64(costs[0].c), int64(costs[1].c), int64(costs[0].c) + 1, 1, 2, 4096}).Draw(rt, l+".c")
			}
		}
		sd = append(sd, d)
	}
	// salts, IVs and ids derive from a digest of everything drawn: no two cases share a salt (see C15 kind seq)
	digest := sha256.Sum256([]byte(fmt.Sprintf("%x|%x|%s|%v|%v|%v|%x|%v|%v", pw, secret, kdf, costs, ctors, metas, pw2, sd, wrongs)))
	derive := func(label string, n int) []byte {
		var out []byte
		for ctr := 0; len(out) < n; ctr++ {
			h := sha256.Sum256(append(append([]byte{byte(ctr)}, digest[:]...), label...))
			out = append(out, h[:]...)
		}
		return out[:n]
	}
	uuid := func(label string) string {
		b := derive(label, 16)
		return fmt.Sprintf("%x-%x-%x-%x-%x", b[0:4], b[4:6], b[6:8], b[8:10], b[10:16])
	}
	salt := derive("salt", 32)
	var c HistCase
	for i := 0; i < nlib; i++ {
		sec := secret
		if ctors[i] == "custom-light" || ctors[i] == "custom-standard" {
			sec = derive(fmt.Sprintf("custom%d", i), 1+int(digest[i])%64)
		}
		c.Members = append(c.Members, HistMember{Ctor: ctors[i], Meta: metas[i], Secret: hx(sec), Password: hx(pw)})
	}
	ext := func(kdf string, co cost, salt []byte, secret, password []byte, l string) HistMember {
		m := HistMember{KDF: kdf, Salt: hx(salt), IV: hx(derive(l+".iv", 16)), ID: uuid(l + ".id"), Secret: hx(secret), Password: hx(password)}
		if kdf == "scrypt" {
			m.N, m.R, m.P = co.n, co.r, co.p
		} else {
			m.C = co.c
		}
		return m
	}
	other := "pbkdf2"
	if kdf == "pbkdf2" {
		other = "scrypt"
	}
	c.Members = append(c.Members,
		ext(kdf, costs[0], salt, secret, pw, "e0"), // same salt and password ...
		ext(kdf, costs[1], salt, secret, pw, "e1"), // ... under other cost parameters
		ext(other, costs[0], salt, secret, pw, "e2"),
		ext(kdf, costs[0], derive("salt3", 16), derive("secret3", 32), []byte(pw2), "e3"))
	related := false
	for _, d := range sd {
		st := HistStep{Member: d.member, Password: c.Members[d.member].Password}
		switch {
		case d.how == 3 && len(wrongs) > 0:
			st.Password = wrongs[d.wrong]
			related = true
		case d.how >= 4:
			st.Field, st.Value = d.field, d.value
			related = true
		}
		c.Steps = append(c.Steps, st)
	}
	cl := []string{"hist:" + kdf, fmt.Sprintf("hist:lib-members=%d", nlib), "hist:" + pwClass}
	if related {
		cl = append(cl, "hist:wrong-password-or-altered-cost")
	}
	return c, cl
}
