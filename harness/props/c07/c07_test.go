// Package c07 decides property C07 (keystore V3 round trip, wrong passwords,
// tamper detection, freshness) by generated-input search against the independent
// Web3 Secret Storage implementation ref/v3ref and the independent curve ref/secp.
package c07

import (
	"bytes"
	"crypto/sha256"
	"encoding/hex"
	"encoding/json"
	"fmt"
	"math/big"
	"reflect"
	"sort"
	"strings"
	"sync"
	"testing"
	"unicode"
	"unicode/utf8"

	"github.com/hyperledger/firefly-signer/pkg/keystorev3"
	"github.com/hyperledger/firefly-signer/pkg/secp256k1"
	"pgregory.net/rapid"

	"verifharness/evid"
	"verifharness/gen"
	"verifharness/ref/secp"
	"verifharness/ref/v3ref"
)

const rule = "a file case is non-trivial when the password is non-ASCII or has whitespace at an edge, or the secret is not 32 bytes long, " +
	"or it is an externally written file with r != 8 or p != 1 or PBKDF2; every tamper case (one altered byte of ciphertext/MAC/salt or one altered KDF parameter) is non-trivial; " +
	"every history (kind hist: related files created and read in one process) and every concurrent batch is non-trivial; " +
	"distinct by hash of the case JSON"

// ---- small helpers ------------------------------------------------------------------------

func hx(b []byte) string { return hex.EncodeToString(b) }

func unhx(s string) []byte {
	b, err := hex.DecodeString(s)
	if err != nil {
		panic("harness: bad hex in case: " + err.Error())
	}
	return b
}

// canon is the canonical JSON text of a decoded JSON value (sorted keys).
func canon(v interface{}) string {
	b, err := json.Marshal(v)
	if err != nil {
		return "!unmarshalable:" + err.Error()
	}
	return string(b)
}

func canonText(text string) (string, error) {
	var v interface{}
	if err := json.Unmarshal([]byte(text), &v); err != nil {
		return "", err
	}
	return canon(v), nil
}

func sortedKeys(m map[string]string) []string {
	keys := make([]string, 0, len(m))
	for k := range m {
		keys = append(keys, k)
	}
	sort.Strings(keys)
	return keys
}

func isNilWallet(w keystorev3.WalletFile) bool {
	if w == nil {
		return true
	}
	rv := reflect.ValueOf(w)
	return rv.Kind() == reflect.Ptr && rv.IsNil()
}

// readLib calls the code under test. A panic is returned as a violation of clause.
//
// Caller-owned memory: file and password are handed over as sub-slices of ONE buffer, each
// followed by spare capacity; the call must leave all of it untouched, and the buffer is
// overwritten as soon as the call returns - whatever the accessors of the returned wallet
// report afterwards cannot live in the caller's bytes.
func readLib(clause string, file, password []byte) (w keystorev3.WalletFile, err error, pv *evid.Violation) {
	const guard = 32
	arena := bytes.Repeat([]byte{0xA5}, len(file)+len(password)+2*guard)
	f := arena[:len(file)]
	copy(f, file)
	p := arena[len(file)+guard : len(file)+guard+len(password)]
	copy(p, password)
	before := append([]byte{}, arena...)
	pv = evid.Guard(clause, func() { w, err = keystorev3.ReadWalletFile(f, p) })
	if pv == nil && !bytes.Equal(arena, before) {
		v := evid.V("inputs-not-modified", "ReadWalletFile wrote to the caller's file/password bytes or to the spare capacity behind them")
		pv = &v
	}
	for i := range arena {
		arena[i] ^= 0xFF
	}
	return
}

// mustFail asserts "an error and never a key".
func mustFail(clause, what string, file, password []byte) []evid.Violation {
	w, err, pv := readLib(clause, file, password)
	if pv != nil {
		return []evid.Violation{*pv}
	}
	var vs []evid.Violation
	if err == nil {
		vs = append(vs, evid.V(clause, "%s: ReadWalletFile returned no error", what))
	}
	if !isNilWallet(w) {
		var k []byte
		if pv := evid.Guard(clause, func() { k = w.PrivateKey() }); pv != nil {
			return append(vs, *pv)
		}
		if len(k) > 0 {
			vs = append(vs, evid.V(clause, "%s: a %d-byte key is exposed by the returned wallet (err=%v)", what, len(k), err))
		}
	}
	return vs
}

// hmacKey is the 64-byte block HMAC-SHA-256 derives from a key (RFC 2104): keys longer
// than the block are hashed first, then the key is zero-padded.  Two passwords with the
// same block are the same input to PBKDF2 and scrypt (e.g. "pw" and "pw\x00"), so they
// are not "another password" for any V3 implementation.
func hmacKey(pw []byte) [64]byte {
	var k [64]byte
	if len(pw) > 64 {
		h := sha256.Sum256(pw)
		copy(k[:], h[:])
	} else {
		copy(k[:], pw)
	}
	return k
}

func samePassword(a, b []byte) bool { return hmacKey(a) == hmacKey(b) }

// normAddr reduces the canonical JSON of an address string to bare lower-case hex, so that
// the spelling of the (non-standard) "address" member - 0x prefix, EIP-55 capitals - is not
// what is judged, only which address it names.
func normAddr(canonJSON string) string {
	var s string
	if json.Unmarshal([]byte(canonJSON), &s) != nil {
		return canonJSON
	}
	s = strings.ToLower(s)
	return strings.TrimPrefix(s, "0x")
}

func sameMember(key, got, want string, lenientAddr bool) bool {
	if key == "address" && lenientAddr {
		return normAddr(got) == normAddr(want)
	}
	return got == want
}

func validScalar(secret []byte) bool {
	return len(secret) == 32 && secp.ValidScalar(new(big.Int).SetBytes(secret))
}

func refAddress(secret []byte) string {
	a := secp.AddressOfKey(new(big.Int).SetBytes(secret))
	return hx(a[:])
}

// checkRead asserts clause (ii)/(iv): the library reads file with password to the
// secret, its address, the id, version 3 and a metadata map that contains expect.
func checkRead(prefix string, file, password, secret []byte, wantID string, expect map[string]string, lenientAddr bool) (vs []evid.Violation, w keystorev3.WalletFile) {
	w, err, pv := readLib(prefix+"-no-panic", file, password)
	if pv != nil {
		return []evid.Violation{*pv}, nil
	}
	if err != nil {
		return []evid.Violation{evid.V(prefix+"-read", "ReadWalletFile with the right password failed: %v", err)}, nil
	}
	if isNilWallet(w) {
		return []evid.Violation{evid.V(prefix+"-read", "nil wallet with nil error")}, nil
	}
	if pv := evid.Guard(prefix+"-accessors", func() {
		if got := w.PrivateKey(); !bytes.Equal(got, secret) {
			vs = append(vs, evid.V(prefix+"-key", "PrivateKey() = %x, want %x", got, secret))
		}
		if validScalar(secret) {
			kp := w.KeyPair()
			if kp == nil {
				vs = append(vs, evid.V(prefix+"-address", "KeyPair() is nil"))
			} else if got := hx(kp.Address[:]); got != refAddress(secret) {
				vs = append(vs, evid.V(prefix+"-address", "KeyPair().Address = %s, independent derivation gives %s", got, refAddress(secret)))
			}
		}
		if id := w.GetID(); id == nil || id.String() != wantID {
			vs = append(vs, evid.V(prefix+"-id", "GetID() = %v, file says %s", id, wantID))
		}
		if w.GetVersion() != 3 {
			vs = append(vs, evid.V(prefix+"-version", "GetVersion() = %d", w.GetVersion()))
		}
		md := w.Metadata()
		for _, k := range sortedKeys(expect) {
			got, ok := md[k]
			if !ok {
				vs = append(vs, evid.V(prefix+"-metadata", "Metadata() lacks member %q (want %s)", k, expect[k]))
			} else if !sameMember(k, canon(got), expect[k], lenientAddr) {
				vs = append(vs, evid.V(prefix+"-metadata", "Metadata()[%q] = %s, want %s", k, canon(got), expect[k]))
			}
		}
	}); pv != nil {
		vs = append(vs, *pv)
	}
	return vs, w
}

// ---- structural view of a written file ------------------------------------------------------

type fileView struct {
	top    map[string]json.RawMessage
	id     string
	salt   []byte
	iv     []byte
	ct     []byte
	mac    []byte
	kdf    string
	params map[string]json.RawMessage
}

func plainHex(name string, raw json.RawMessage) ([]byte, error) {
	var s string
	if err := json.Unmarshal(raw, &s); err != nil || len(raw) == 0 || raw[0] != '"' {
		return nil, fmt.Errorf("%s is not a string: %s", name, raw)
	}
	b, err := hex.DecodeString(s) // no 0x prefix: what every other implementation expects
	if err != nil {
		return nil, fmt.Errorf("%s is not plain hex: %q", name, s)
	}
	return b, nil
}

// viewFile checks clause (i) "structurally a V3 document" with the harness's own decoding.
func viewFile(file []byte, secretLen int) (*fileView, []evid.Violation) {
	var vs []evid.Violation
	bad := func(format string, a ...interface{}) { vs = append(vs, evid.V("v3-structure", format, a...)) }
	v := &fileView{}
	if err := json.Unmarshal(file, &v.top); err != nil || v.top == nil {
		bad("file is not a JSON object: %v", err)
		return nil, vs
	}
	if string(v.top["version"]) != "3" {
		bad("version is %s, want the number 3", v.top["version"])
	}
	if err := json.Unmarshal(v.top["id"], &v.id); err != nil || !v3ref.IsCanonicalUUID(v.id) {
		bad("id %s is not a canonical UUID string", v.top["id"])
	}
	var crypto map[string]json.RawMessage
	if err := json.Unmarshal(v.top["crypto"], &crypto); err != nil || crypto == nil {
		bad("crypto is not an object: %s", v.top["crypto"])
		return nil, vs
	}
	if string(crypto["cipher"]) != `"aes-128-ctr"` {
		bad("cipher is %s", crypto["cipher"])
	}
	var cp map[string]json.RawMessage
	if err := json.Unmarshal(crypto["cipherparams"], &cp); err != nil || cp == nil {
		bad("cipherparams is not an object")
		return nil, vs
	}
	var err error
	if v.iv, err = plainHex("iv", cp["iv"]); err != nil || len(v.iv) != 16 {
		bad("iv: %v (%d bytes, want 16)", err, len(v.iv))
	}
	if v.ct, err = plainHex("ciphertext", crypto["ciphertext"]); err != nil || len(v.ct) != secretLen {
		bad("ciphertext: %v (%d bytes for a %d-byte secret)", err, len(v.ct), secretLen)
	}
	if v.mac, err = plainHex("mac", crypto["mac"]); err != nil || len(v.mac) != 32 {
		bad("mac: %v (%d bytes, want 32)", err, len(v.mac))
	}
	if err := json.Unmarshal(crypto["kdf"], &v.kdf); err != nil || (v.kdf != "scrypt" && v.kdf != "pbkdf2") {
		bad("kdf is %s", crypto["kdf"])
	}
	if err := json.Unmarshal(crypto["kdfparams"], &v.params); err != nil || v.params == nil {
		bad("kdfparams is not an object")
		return nil, vs
	}
	if string(v.params["dklen"]) != "32" {
		bad("dklen is %s, want 32", v.params["dklen"])
	}
	if v.salt, err = plainHex("salt", v.params["salt"]); err != nil || len(v.salt) == 0 {
		bad("salt: %v (%d bytes)", err, len(v.salt))
	}
	need := []string{"n", "r", "p"}
	if v.kdf == "pbkdf2" {
		need = []string{"c", "prf"}
	}
	for _, k := range need {
		if _, ok := v.params[k]; !ok {
			bad("kdfparams.%s is not declared", k)
		}
	}
	return v, vs
}

// ---- freshness registry: every salt and IV the library produced in this process ----------------

var fresh = struct {
	sync.Mutex
	salts, ivs map[string]struct{}
}{salts: map[string]struct{}{}, ivs: map[string]struct{}{}}

func registerFresh(v *fileView) (vs []evid.Violation) {
	fresh.Lock()
	defer fresh.Unlock()
	if _, dup := fresh.salts[string(v.salt)]; dup {
		vs = append(vs, evid.V("fresh-salt", "salt %x was already used by an earlier file of this run", v.salt))
	}
	if _, dup := fresh.ivs[string(v.iv)]; dup {
		vs = append(vs, evid.V("fresh-iv", "iv %x was already used by an earlier file of this run", v.iv))
	}
	fresh.salts[string(v.salt)] = struct{}{}
	fresh.ivs[string(v.iv)] = struct{}{}
	return vs
}

// ---- kind "libfile": a file written by the library ----------------------------------------------

type MetaOp struct {
	Key  string `json:"key"`
	JSON string `json:"json"` // JSON text of the value assigned to Metadata()[Key]; "null" is the documented removal
}

type LibFileCase struct {
	Ctor     string   `json:"ctor"`     // light | standard | custom-light | custom-standard
	Secret   string   `json:"secret"`   // hex
	Password string   `json:"password"` // hex of the UTF-8 text
	Meta     []MetaOp `json:"meta"`
	Wrong    []string `json:"wrong"` // hex passwords, all different from Password
}

func construct(ctor, password string, secret []byte) (w keystorev3.WalletFile, pv *evid.Violation) {
	w, _, pv = constructKeep(ctor, password, secret)
	return
}

// constructKeep also returns a function that reports whether what the caller handed to the
// constructor (the secret bytes with the spare capacity behind them, or the key pair) has
// been written to since.
func constructKeep(ctor, password string, secret []byte) (w keystorev3.WalletFile, intact func() bool, pv *evid.Violation) {
	intact = func() bool { return true }
	pv = evid.Guard("create-no-panic", func() {
		switch ctor {
		case "light", "standard":
			kp := secp256k1.KeyPairFromBytes(secret)
			addr := kp.Address
			intact = func() bool { return bytes.Equal(kp.PrivateKeyBytes(), secret) && kp.Address == addr }
			if ctor == "light" {
				w = keystorev3.NewWalletFileLight(password, kp)
			} else {
				w = keystorev3.NewWalletFileStandard(password, kp)
			}
		case "custom-light", "custom-standard":
			buf := bytes.Repeat([]byte{0xA5}, len(secret)+32)
			in := buf[:len(secret)]
			copy(in, secret)
			before := append([]byte{}, buf...)
			intact = func() bool { return bytes.Equal(buf, before) }
			if ctor == "custom-light" {
				w = keystorev3.NewWalletFileCustomBytesLight(password, in)
			} else {
				w = keystorev3.NewWalletFileCustomBytesStandard(password, in)
			}
		default:
			panic("harness: unknown constructor " + ctor)
		}
	})
	return
}

var coreFields = map[string]bool{"id": true, "version": true, "crypto": true}

func judgeLibFile(c LibFileCase) (vs []evid.Violation) {
	secret, pwBytes := unhx(c.Secret), unhx(c.Password)
	password := string(pwBytes)
	keypairCtor := c.Ctor == "light" || c.Ctor == "standard"
	if keypairCtor && !validScalar(secret) {
		return []evid.Violation{evid.V("harness", "keypair constructor with a secret that is not a valid scalar")}
	}
	w, inputsIntact, pv := constructKeep(c.Ctor, password, secret)
	if pv != nil {
		return []evid.Violation{*pv}
	}
	if isNilWallet(w) {
		return []evid.Violation{evid.V("create", "constructor returned nil")}
	}
	// expected non-core members of the document
	expect := map[string]string{}
	removed := map[string]bool{}
	if keypairCtor {
		expect["address"] = canon(refAddress(secret))
	}
	var file []byte
	var idBefore string
	addrDefault := keypairCtor // the address member is the one the constructor wrote
	for _, op := range c.Meta {
		if op.Key == "address" {
			addrDefault = false
		}
	}
	if pv := evid.Guard("create-no-panic", func() {
		if got := w.PrivateKey(); !bytes.Equal(got, secret) {
			vs = append(vs, evid.V("create-key", "new wallet PrivateKey() = %x, want %x", got, secret))
		}
		if keypairCtor {
			if got := canon(w.Metadata()["address"]); !sameMember("address", got, expect["address"], true) {
				vs = append(vs, evid.V("create-address", "address metadata of a new wallet is %s, independent derivation gives %s", got, expect["address"]))
			}
		}
		if id := w.GetID(); id != nil {
			idBefore = id.String()
		}
		for _, op := range c.Meta {
			var v interface{}
			if err := json.Unmarshal([]byte(op.JSON), &v); err != nil {
				panic("harness: bad metadata JSON in case: " + err.Error())
			}
			w.Metadata()[op.Key] = v
			if v == nil {
				delete(expect, op.Key)
				removed[op.Key] = true
			} else {
				expect[op.Key] = canon(v)
				delete(removed, op.Key)
			}
		}
		// serialising is a read: the metadata map (with the caller's values in it) and the key stay as they are,
		// and serialising twice gives the same document
		mdBefore := canon(w.Metadata())
		file = w.JSON()
		if mdAfter := canon(w.Metadata()); mdAfter != mdBefore {
			vs = append(vs, evid.V("json-is-a-read", "Metadata() was %s before JSON() and is %s after it", mdBefore, mdAfter))
		}
		if got := w.PrivateKey(); !bytes.Equal(got, secret) {
			vs = append(vs, evid.V("json-is-a-read", "PrivateKey() is %x after JSON(), want %x", got, secret))
		}
		a, errA := canonText(string(file))
		b, errB := canonText(string(w.JSON()))
		if errA != nil || errB != nil || a != b {
			vs = append(vs, evid.V("json-is-a-read", "two calls of JSON() on the same wallet give different documents: %s / %s", a, b))
		}
		if !inputsIntact() {
			vs = append(vs, evid.V("inputs-not-modified", "the %s constructor or JSON() wrote to the key material the caller handed over (or to the spare capacity behind it)", c.Ctor))
		}
	}); pv != nil {
		return append(vs, *pv)
	}
	for k := range coreFields {
		delete(expect, k)
		delete(removed, k)
	}

	// (i) structurally V3, and an independent implementation decrypts it with the declared parameters
	view, svs := viewFile(file, len(secret))
	vs = append(vs, svs...)
	if view == nil {
		return vs
	}
	if view.id != idBefore {
		vs = append(vs, evid.V("core-fields", "file id %q differs from GetID() %q of the wallet that was serialised", view.id, idBefore))
	}
	for _, k := range sortedKeys(expect) {
		want := expect[k]
		raw, ok := view.top[k]
		if !ok {
			vs = append(vs, evid.V("file-metadata", "member %q (= %s) is missing from the file", k, want))
		} else if got, err := canonText(string(raw)); err != nil || !sameMember(k, got, want, addrDefault) {
			vs = append(vs, evid.V("file-metadata", "member %q of the file is %s, want %s", k, raw, want))
		}
	}
	for k := range removed {
		if raw, ok := view.top[k]; ok {
			vs = append(vs, evid.V("file-metadata", "member %q was set to nil but the file has %s", k, raw))
		}
	}
	rk, rerr := v3ref.Read(file, pwBytes)
	if rerr != nil {
		return append(vs, evid.V("independent-read", "the independent V3 reader rejects the file written by the library: %v", rerr))
	}
	if !bytes.Equal(rk.Secret, secret) {
		vs = append(vs, evid.V("independent-read", "the independent V3 reader decrypts %x, want %x", rk.Secret, secret))
	}
	vs = append(vs, registerFresh(view)...)

	// (ii) the library reads its own file
	rvs, w2 := checkRead("roundtrip", file, pwBytes, secret, view.id, expect, addrDefault)
	vs = append(vs, rvs...)
	if w2 != nil && len(rvs) == 0 {
		// a wallet that was read and written again is still the same V3 document for a second implementation
		var again []byte
		if pv := evid.Guard("rewrite-no-panic", func() { again = w2.JSON() }); pv != nil {
			vs = append(vs, *pv)
		} else if rk2, err := v3ref.Read(again, pwBytes); err != nil || !bytes.Equal(rk2.Secret, secret) || rk2.ID != view.id {
			vs = append(vs, evid.V("rewrite-readable", "JSON() of the wallet read back is not decrypted by the independent reader to the same key/id: %v", err))
		}
	}

	// (iii) any other password: error, no key
	for _, wrong := range c.Wrong {
		wp := unhx(wrong)
		if samePassword(wp, pwBytes) {
			return append(vs, evid.V("harness", "wrong password is the same HMAC key as the password"))
		}
		vs = append(vs, mustFail("wrong-password", fmt.Sprintf("password %q instead of %q", wp, pwBytes), file, wp)...)
	}

	// (v) a second file for the same key and password shares nothing random with the first
	wB, pv := construct(c.Ctor, password, secret)
	if pv != nil {
		return append(vs, *pv)
	}
	var fileB []byte
	if pv := evid.Guard("create-no-panic", func() { fileB = wB.JSON() }); pv != nil {
		return append(vs, *pv)
	}
	viewB, bvs := viewFile(fileB, len(secret))
	vs = append(vs, bvs...)
	if viewB != nil {
		vs = append(vs, registerFresh(viewB)...)
		// only where a chance collision is negligible (a 1-byte secret has 256 possible ciphertexts)
		if len(view.ct) >= 16 && bytes.Equal(viewB.ct, view.ct) {
			vs = append(vs, evid.V("fresh-ciphertext", "the same key and password encrypted twice give the same ciphertext %x", view.ct))
		}
	}
	return vs
}

// ---- kind "extfile": a file written by the independent implementation ------------------------------

type ExtFileCase struct {
	KDF      string   `json:"kdf"`
	N        int      `json:"n,omitempty"`
	R        int      `json:"r,omitempty"`
	P        int      `json:"p,omitempty"`
	C        int      `json:"c,omitempty"`
	Salt     string   `json:"salt"`
	IV       string   `json:"iv"`
	Secret   string   `json:"secret"`
	Password string   `json:"password"`
	ID       string   `json:"id"`
	Address  bool     `json:"address"` // write the conventional "address" member (32-byte keys only)
	Extra    string   `json:"extra"`   // JSON object text of additional top-level members
	Wrong    []string `json:"wrong"`
}

func (c ExtFileCase) spec() (v3ref.Spec, map[string]string, error) {
	s := v3ref.Spec{KDF: c.KDF, N: c.N, R: c.R, P: c.P, C: c.C, DKLen: 32, Salt: unhx(c.Salt), IV: unhx(c.IV),
		Secret: unhx(c.Secret), Password: unhx(c.Password), ID: c.ID}
	expect := map[string]string{}
	if c.Extra != "" {
		if err := json.Unmarshal([]byte(c.Extra), &s.Extra); err != nil {
			return s, nil, err
		}
		for k, v := range s.Extra {
			if coreFields[k] || k == "address" {
				delete(s.Extra, k)
				continue
			}
			expect[k] = canon(v)
		}
	}
	if c.Address && validScalar(s.Secret) {
		s.Address = refAddress(s.Secret)
		expect["address"] = canon(s.Address)
	}
	return s, expect, nil
}

func judgeExtFile(c ExtFileCase) (vs []evid.Violation) {
	s, expect, err := c.spec()
	if err != nil {
		return []evid.Violation{evid.V("harness", "bad case: %v", err)}
	}
	file, err := v3ref.Write(s)
	if err != nil {
		return []evid.Violation{evid.V("harness", "reference writer: %v", err)}
	}
	if k, err := v3ref.Read(file, s.Password); err != nil || !bytes.Equal(k.Secret, s.Secret) {
		return []evid.Violation{evid.V("harness", "reference reader does not read the reference writer's file: %v", err)}
	}
	// (iv) standard files produced elsewhere are read correctly
	rvs, w := checkRead("external", file, s.Password, s.Secret, c.ID, expect, false)
	vs = append(vs, rvs...)
	if w != nil && len(rvs) == 0 {
		var again []byte
		if pv := evid.Guard("rewrite-no-panic", func() { again = w.JSON() }); pv != nil {
			vs = append(vs, *pv)
		} else if k2, err := v3ref.Read(again, s.Password); err != nil || !bytes.Equal(k2.Secret, s.Secret) || k2.ID != c.ID {
			vs = append(vs, evid.V("rewrite-readable", "JSON() of the wallet read from an external file is not decrypted by the independent reader to the same key/id: %v", err))
		}
	}
	for _, wrong := range c.Wrong {
		wp := unhx(wrong)
		if samePassword(wp, s.Password) {
			return append(vs, evid.V("harness", "wrong password is the same HMAC key as the password"))
		}
		vs = append(vs, mustFail("wrong-password", fmt.Sprintf("password %q instead of %q", wp, s.Password), file, wp)...)
	}
	return vs
}

// ---- kind "tamper": one alteration of an intact file ------------------------------------------------

type TamperCase struct {
	File      string `json:"file"`     // JSON text of an intact V3 document
	Password  string `json:"password"` // hex
	Secret    string `json:"secret"`   // hex, what the intact document holds
	Field     string `json:"field"`    // ciphertext | mac | salt | n | r | p | c | dklen
	Pos       int    `json:"pos"`      // byte position for ciphertext/mac/salt
	Delta     int    `json:"delta"`    // 1..255, XORed into that byte
	Value     int64  `json:"value"`    // new value for n/r/p/c/dklen
	CheckBase bool   `json:"checkBase"`
}

// cost caps for tampered parameters (the property quantifies over affordable files)
const (
	capN     = 1 << 16
	capRP    = 64
	capC     = 1 << 16
	capDKLen = 1 << 12
)

func judgeTamper(c TamperCase) (vs []evid.Violation) {
	pw, secret := unhx(c.Password), unhx(c.Secret)
	var doc map[string]interface{}
	dec := json.NewDecoder(strings.NewReader(c.File))
	dec.UseNumber()
	if err := dec.Decode(&doc); err != nil {
		return []evid.Violation{evid.V("harness", "case file is not JSON: %v", err)}
	}
	crypto, _ := doc["crypto"].(map[string]interface{})
	var params map[string]interface{}
	if crypto != nil {
		params, _ = crypto["kdfparams"].(map[string]interface{})
	}
	if params == nil {
		return []evid.Violation{evid.V("harness", "case file has no crypto.kdfparams")}
	}
	if c.CheckBase {
		w, err, pv := readLib("tamper-base", []byte(c.File), pw)
		if pv != nil {
			return []evid.Violation{*pv}
		}
		if err != nil || isNilWallet(w) || !bytes.Equal(w.PrivateKey(), secret) {
			return []evid.Violation{evid.V("tamper-base", "the intact file is not read to its key: %v", err)}
		}
	}
	var what string
	switch c.Field {
	case "ciphertext", "mac", "salt":
		holder := crypto
		if c.Field == "salt" {
			holder = params
		}
		s, _ := holder[c.Field].(string)
		b, err := hex.DecodeString(s)
		if err != nil || c.Pos < 0 || c.Pos >= len(b) || c.Delta < 1 || c.Delta > 255 {
			return []evid.Violation{evid.V("harness", "cannot tamper %s[%d]^%d of %q", c.Field, c.Pos, c.Delta, s)}
		}
		b[c.Pos] ^= byte(c.Delta)
		holder[c.Field] = hex.EncodeToString(b)
		what = fmt.Sprintf("%s byte %d xor 0x%02x", c.Field, c.Pos, c.Delta)
	case "n", "r", "p", "c", "dklen":
		old, ok := params[c.Field].(json.Number)
		if !ok {
			return []evid.Violation{evid.V("harness", "kdfparams.%s is not a number in the case file", c.Field)}
		}
		if old.String() == fmt.Sprint(c.Value) {
			return []evid.Violation{evid.V("harness", "tamper value equals the original %s", old)}
		}
		limit := int64(capRP)
		switch c.Field {
		case "n":
			limit = capN
		case "c":
			limit = capC
			if c.Value <= 0 {
				return []evid.Violation{evid.V("harness", "pbkdf2 c <= 0 is not asserted")}
			}
		case "dklen":
			limit = capDKLen
		}
		if c.Value > limit {
			return []evid.Violation{evid.V("harness", "tamper value %d beyond the cost cap %d", c.Value, limit)}
		}
		params[c.Field] = json.Number(fmt.Sprint(c.Value))
		what = fmt.Sprintf("%s %s -> %d", c.Field, old, c.Value)
	default:
		return []evid.Violation{evid.V("harness", "unknown tamper field %q", c.Field)}
	}
	tampered, err := json.Marshal(doc)
	if err != nil {
		return []evid.Violation{evid.V("harness", "re-marshal: %v", err)}
	}
	return mustFail("tamper-detected", what, tampered, pw)
}

// ---- generators -----------------------------------------------------------------------------------------

func genScalar(rt *rapid.T, label string) []byte {
	mode := rapid.IntRange(0, 9).Draw(rt, label+".mode")
	var d *big.Int
	switch {
	case mode == 0:
		specials := []*big.Int{big.NewInt(1), big.NewInt(2), big.NewInt(255), big.NewInt(256),
			new(big.Int).Sub(secp.N, big.NewInt(1)), new(big.Int).Sub(secp.N, big.NewInt(2)), secp.HalfN,
			gen.Pow2(255), new(big.Int).Sub(gen.Pow2(248), big.NewInt(1)), gen.Pow2(128)}
		d = rapid.SampledFrom(specials).Draw(rt, label+".special")
	case mode <= 2: // leading zero bytes
		nz := rapid.IntRange(1, 8).Draw(rt, label+".zeros")
		b := gen.Bytes(rt, label+".tail", 32-nz)
		d = new(big.Int).SetBytes(b)
	default:
		d = new(big.Int).SetBytes(gen.Bytes(rt, label+".bytes", 32))
	}
	if d.Sign() == 0 {
		d = big.NewInt(1)
	}
	if d.Cmp(secp.N) >= 0 {
		d.Sub(d, secp.N)
		if d.Sign() == 0 {
			d = big.NewInt(1)
		}
	}
	out := make([]byte, 32)
	d.FillBytes(out)
	return out
}

var customLens = []int{1, 2, 15, 16, 17, 31, 33, 47, 48, 64, 65, 127, 128}

func genCustomSecret(rt *rapid.T, label string) []byte {
	var n int
	if rapid.Bool().Draw(rt, label+".edge") {
		n = rapid.SampledFrom(customLens).Draw(rt, label+".len")
	} else {
		n = rapid.IntRange(1, 128).Draw(rt, label+".len")
	}
	return gen.Bytes(rt, label, n)
}

var wsEdges = []string{" ", "\t", "\n", "\r\n", "  ", "\u00a0", "\u3000", "\u2003", "\v", "\f", "\u0085"}

// precomposed and decomposed forms, look-alikes (Greek Omega / Ohm sign, dotless i), CJK, 4-byte runes,
// zero-width joiner, RTL override, BOM
var multiByte = []string{"\u00e9", "e\u0301", "\u00fc", "\u00df", "\u0131", "\u0130", "\u03a9", "\u2126", "\u0436", "\u6f22", "\u5b57", "\u30d1", "\ud55c",
	"\U0001F600", "\U0001F469\u200d\U0001F469\u200d\U0001F467", "\u200d", "\u202e", "\ufeff", "\u20ac", "\U0001D518", "\ufb01"}

func genASCII(rt *rapid.T, label string, min, max int) string {
	n := rapid.IntRange(min, max).Draw(rt, label+".n")
	b := make([]byte, n)
	for i := range b {
		b[i] = byte(rapid.IntRange(0x20, 0x7e).Draw(rt, label+".c"))
	}
	return string(b)
}

func genMulti(rt *rapid.T, label string, min, max int) string {
	n := rapid.IntRange(min, max).Draw(rt, label+".n")
	var sb strings.Builder
	for i := 0; i < n; i++ {
		if rapid.IntRange(0, 2).Draw(rt, label+".ascii") == 0 {
			sb.WriteByte(byte(rapid.IntRange(0x21, 0x7e).Draw(rt, label+".c")))
		} else {
			sb.WriteString(rapid.SampledFrom(multiByte).Draw(rt, label+".m"))
		}
	}
	return sb.String()
}

// genPassword returns the password and its class.
func genPassword(rt *rapid.T) (string, string) {
	switch rapid.IntRange(0, 11).Draw(rt, "pw.class") {
	case 3:
		return "", "pw:empty"
	case 0, 1, 2:
		return genASCII(rt, "pw.ascii", 1, 40), "pw:ascii"
	case 4, 5:
		core := genASCII(rt, "pw.core", 0, 12)
		if rapid.Bool().Draw(rt, "pw.coreMulti") {
			core = genMulti(rt, "pw.coreM", 1, 6)
		}
		lead, trail := "", ""
		switch rapid.IntRange(0, 2).Draw(rt, "pw.edge") {
		case 0:
			lead = rapid.SampledFrom(wsEdges).Draw(rt, "pw.lead")
		case 1:
			trail = rapid.SampledFrom(wsEdges).Draw(rt, "pw.trail")
		default:
			lead = rapid.SampledFrom(wsEdges).Draw(rt, "pw.lead")
			trail = rapid.SampledFrom(wsEdges).Draw(rt, "pw.trail")
		}
		return lead + core + trail, "pw:whitespace-edge"
	case 6, 7, 11:
		return genMulti(rt, "pw.multi", 1, 24), "pw:multibyte"
	case 9: // long, up to exactly 1 KiB
		target := rapid.SampledFrom([]int{200, 255, 256, 257, 512, 1000, 1023, 1024}).Draw(rt, "pw.longLen")
		unit := "x"
		if rapid.Bool().Draw(rt, "pw.longMulti") {
			unit = rapid.SampledFrom(multiByte).Draw(rt, "pw.longUnit")
		}
		head := genASCII(rt, "pw.longHead", 1, 8)
		var sb strings.Builder
		sb.WriteString(head)
		for sb.Len()+len(unit) <= target {
			sb.WriteString(unit)
		}
		for sb.Len() < target {
			sb.WriteByte('~')
		}
		return sb.String(), "pw:long"
	case 10: // ASCII with control characters
		n := rapid.IntRange(1, 12).Draw(rt, "pw.ctl.n")
		b := make([]byte, n)
		for i := range b {
			b[i] = byte(rapid.IntRange(0, 0x7f).Draw(rt, "pw.ctl.c"))
		}
		return string(b), "pw:ascii-control"
	default: // 8
		return rapid.SampledFrom([]string{"password", "correcthorsebatterystaple", "testpassword", "0", "null", `"`, `\`, "pass word", "0x00"}).Draw(rt, "pw.common"), "pw:ascii"
	}
}

func isASCII(s string) bool {
	for i := 0; i < len(s); i++ {
		if s[i] >= 0x80 {
			return false
		}
	}
	return true
}

func wsEdged(s string) bool {
	if s == "" {
		return false
	}
	first, _ := utf8.DecodeRuneInString(s)
	last, _ := utf8.DecodeLastRuneInString(s)
	return unicode.IsSpace(first) || unicode.IsSpace(last)
}

func swapCase(s string) string {
	for i, r := range s {
		if unicode.IsLower(r) {
			return s[:i] + string(unicode.ToUpper(r)) + s[i+utf8.RuneLen(r):]
		}
		if unicode.IsUpper(r) {
			return s[:i] + string(unicode.ToLower(r)) + s[i+utf8.RuneLen(r):]
		}
	}
	return s
}

// genWrong derives up to k passwords different from pw: near misses first.
func genWrong(rt *rapid.T, pw string, k int) []string {
	cands := []string{}
	add := func(s string) {
		if samePassword([]byte(s), []byte(pw)) {
			return
		}
		for _, c := range cands {
			if c == s {
				return
			}
		}
		cands = append(cands, s)
	}
	add(strings.TrimSpace(pw))
	add(strings.TrimRight(pw, " \t\r\n"))
	add(strings.TrimLeft(pw, " \t\r\n"))
	trimmedFirst := len(cands) // the trimmed variants are always tried when they exist
	add(pw + " ")
	add(" " + pw)
	add(pw + "\n")
	add(pw + "\x01")
	add(swapCase(pw))
	add(strings.ToLower(pw))
	add(strings.ReplaceAll(pw, "\u00e9", "e\u0301")) // NFC -> NFD
	add(strings.ReplaceAll(pw, "e\u0301", "\u00e9")) // NFD -> NFC
	add(strings.ReplaceAll(pw, "\u2126", "\u03a9"))  // Ohm sign -> Omega (NFKC)
	add(strings.ReplaceAll(pw, "\ufeff", ""))        // BOM stripped
	if pw != "" {
		_, sz := utf8.DecodeLastRuneInString(pw)
		add(pw[:len(pw)-sz])
		_, sz = utf8.DecodeRuneInString(pw)
		add(pw[sz:])
		add("")
		if len(pw) >= 72 {
			add(pw[:72]) // bcrypt-style truncation
		}
		add(pw + pw)
	}
	add(genASCII(rt, "wrong.other", 1, 10))
	var out []string
	for i := 0; i < trimmedFirst && len(out) < k; i++ {
		out = append(out, hx([]byte(cands[i])))
	}
	rest := cands[trimmedFirst:]
	for len(out) < k && len(rest) > 0 {
		i := rapid.IntRange(0, len(rest)-1).Draw(rt, "wrong.pick")
		out = append(out, hx([]byte(rest[i])))
		rest = append(append([]string{}, rest[:i]...), rest[i+1:]...)
	}
	return out
}

func genJSONValue(rt *rapid.T, label string, depth int, allowNull bool) interface{} {
	max := 7
	if depth <= 0 {
		max = 4
	}
	switch rapid.IntRange(0, max).Draw(rt, label+".kind") {
	case 0:
		return genMulti(rt, label+".str", 0, 8)
	case 1:
		return rapid.Bool().Draw(rt, label+".bool")
	case 2:
		return float64(rapid.Int64Range(-(1<<53), 1<<53).Draw(rt, label+".int"))
	case 3:
		return rapid.SampledFrom([]float64{0, 0.5, -1.25, 1e21, 1e-7, 3.141592653589793, 42, 1 << 32}).Draw(rt, label+".num")
	case 4:
		if allowNull {
			return nil
		}
		return "null"
	case 5, 6:
		n := rapid.IntRange(0, 3).Draw(rt, label+".n")
		arr := make([]interface{}, n)
		for i := range arr {
			arr[i] = genJSONValue(rt, fmt.Sprintf("%s.%d", label, i), depth-1, true)
		}
		return arr
	default:
		n := rapid.IntRange(0, 3).Draw(rt, label+".n")
		obj := map[string]interface{}{}
		for i := 0; i < n; i++ {
			k := rapid.SampledFrom([]string{"a", "b", "id", "crypto", "naïve", "", "address", "x y"}).Draw(rt, fmt.Sprintf("%s.k%d", label, i))
			obj[k] = genJSONValue(rt, fmt.Sprintf("%s.%d", label, i), depth-1, true)
		}
		return obj
	}
}

var extraKeys = []string{"bjj", "btc", "description", "x-custom", "myKeyIdentifier", "unicodé", "a.b", "ADDRESS2", "meta", "name"}

// genMeta draws metadata assignments and the class labels they realise.
func genMeta(rt *rapid.T) ([]MetaOp, []string) {
	var ops []MetaOp
	var cl []string
	n := rapid.IntRange(0, 4).Draw(rt, "meta.n")
	for i := 0; i < n; i++ {
		l := fmt.Sprintf("meta.%d", i)
		switch rapid.IntRange(0, 9).Draw(rt, l+".kind") {
		case 0, 1, 2, 3:
			k := rapid.SampledFrom(extraKeys).Draw(rt, l+".key")
			ops = append(ops, MetaOp{Key: k, JSON: canon(genJSONValue(rt, l+".v", 3, false))})
			cl = append(cl, "meta:extra")
		case 4:
			ops = append(ops, MetaOp{Key: "address", JSON: "null"})
			cl = append(cl, "meta:address-removed")
		case 5:
			v := rapid.SampledFrom([]string{`"0x1234"`, `""`, `"not an address"`, `"5d093e9b41911be5f5c4cf91b108bac5d130fa83"`, `{"hex":"00"}`, `7`}).Draw(rt, l+".addr")
			ops = append(ops, MetaOp{Key: "address", JSON: v})
			cl = append(cl, "meta:address-override")
		case 6:
			v := rapid.SampledFrom([]string{`"attempt"`, `"00000000-0000-0000-0000-000000000000"`, `null`, `1`}).Draw(rt, l+".id")
			ops = append(ops, MetaOp{Key: "id", JSON: v})
			cl = append(cl, "meta:override-id")
		case 7:
			v := rapid.SampledFrom([]string{`42`, `"3"`, `null`, `4`}).Draw(rt, l+".ver")
			ops = append(ops, MetaOp{Key: "version", JSON: v})
			cl = append(cl, "meta:override-version")
		default:
			v := rapid.SampledFrom([]string{`{"cipher":"none"}`, `null`, `"x"`, `{"kdf":"pbkdf2","kdfparams":{"c":1}}`}).Draw(rt, l+".crypto")
			ops = append(ops, MetaOp{Key: "crypto", JSON: v})
			cl = append(cl, "meta:override-crypto")
		}
	}
	return ops, cl
}

func secretClass(secret []byte) string {
	switch {
	case len(secret) == 32:
		return "secret:32B"
	case len(secret) < 32:
		return "secret:<32B"
	default:
		return "secret:>32B"
	}
}

func genLibFile(rt *rapid.T, wrongK int) (LibFileCase, bool, []string) {
	ctor := rapid.SampledFrom([]string{"light", "standard", "custom-light", "custom-standard"}).Draw(rt, "ctor")
	var secret []byte
	if ctor == "light" || ctor == "standard" || rapid.IntRange(0, 3).Draw(rt, "custom32") == 0 {
		secret = genScalar(rt, "key")
	} else {
		secret = genCustomSecret(rt, "secret")
	}
	pw, pwClass := genPassword(rt)
	meta, mcl := genMeta(rt)
	c := LibFileCase{Ctor: ctor, Secret: hx(secret), Password: hx([]byte(pw)), Meta: meta, Wrong: genWrong(rt, pw, wrongK)}
	cl := append([]string{"lib:" + ctor, "lib:" + secretClass(secret), "lib:" + pwClass}, mcl...)
	if len(pw) > 0 && strings.TrimSpace(pw) != pw {
		cl = append(cl, "lib:wrong=trimmed-password")
	}
	nt := !isASCII(pw) || wsEdged(pw) || len(secret) != 32
	return c, nt, cl
}

func genUUID(rt *rapid.T, label string) string {
	b := gen.Bytes(rt, label, 16)
	return fmt.Sprintf("%x-%x-%x-%x-%x", b[0:4], b[4:6], b[6:8], b[8:10], b[10:16])
}

func genExtFile(rt *rapid.T, wrongK int, cheap bool, forceKDF string) (ExtFileCase, bool, []string) {
	c := ExtFileCase{}
	var cl []string
	if forceKDF == "scrypt" || (forceKDF == "" && rapid.IntRange(0, 2).Draw(rt, "kdf") < 2) {
		c.KDF = "scrypt"
		maxExp := 14
		if cheap {
			maxExp = 4
		}
		e := rapid.IntRange(1, maxExp).Draw(rt, "nExp")
		c.N = 1 << e
		c.R = rapid.SampledFrom([]int{1, 8}).Draw(rt, "r")
		c.P = rapid.SampledFrom([]int{1, 2}).Draw(rt, "p")
		cl = append(cl, fmt.Sprintf("ext:scrypt r=%d p=%d", c.R, c.P))
		switch {
		case e == 1:
			cl = append(cl, "ext:scrypt N=2")
		case e == 14:
			cl = append(cl, "ext:scrypt N=2^14")
		case e >= 10:
			cl = append(cl, "ext:scrypt N=2^10..2^13")
		default:
			cl = append(cl, "ext:scrypt N=2^2..2^9")
		}
	} else {
		c.KDF = "pbkdf2"
		max := 4096
		if cheap {
			max = 64
		}
		if rapid.IntRange(0, 3).Draw(rt, "cEdge") == 0 {
			c.C = rapid.SampledFrom([]int{1, 2, 3, max - 1, max}).Draw(rt, "cSpecial")
		} else {
			c.C = rapid.IntRange(1, max).Draw(rt, "c")
		}
		switch {
		case c.C == 1:
			cl = append(cl, "ext:pbkdf2 c=1")
		case c.C == 4096:
			cl = append(cl, "ext:pbkdf2 c=4096")
		default:
			cl = append(cl, "ext:pbkdf2 1<c<4096")
		}
	}
	var secret []byte
	if rapid.IntRange(0, 3).Draw(rt, "custom") == 0 {
		secret = genCustomSecret(rt, "secret")
	} else {
		secret = genScalar(rt, "key")
	}
	saltLen := rapid.SampledFrom([]int{32, 32, 32, 16, 8, 64, 20}).Draw(rt, "saltLen")
	pw, pwClass := genPassword(rt)
	c.Salt = gen.HexBytes(rt, "salt", saltLen)
	c.IV = gen.HexBytes(rt, "iv", 16)
	c.Secret = hx(secret)
	c.Password = hx([]byte(pw))
	c.ID = genUUID(rt, "id")
	c.Address = rapid.Bool().Draw(rt, "address")
	if rapid.Bool().Draw(rt, "hasExtra") {
		obj := map[string]interface{}{}
		n := rapid.IntRange(1, 3).Draw(rt, "extra.n")
		for i := 0; i < n; i++ {
			k := rapid.SampledFrom(extraKeys).Draw(rt, fmt.Sprintf("extra.k%d", i))
			obj[k] = genJSONValue(rt, fmt.Sprintf("extra.%d", i), 3, false)
		}
		c.Extra = canon(obj)
		cl = append(cl, "ext:extra-members")
	}
	c.Wrong = genWrong(rt, pw, wrongK)
	cl = append(cl, "ext:"+secretClass(secret), "ext:"+pwClass)
	nt := !isASCII(pw) || wsEdged(pw) || len(secret) != 32 || c.KDF == "pbkdf2" || c.R != 8 || c.P != 1
	return c, nt, cl
}

// offerTamper, when set by TestCheck, receives tamper cases for the concurrent phase.
var offerTamper func(TamperCase)

// sweep judges every single-byte tamper and the parameter changes of one intact file.
func sweep(rt *rapid.T, k *evid.Kind[TamperCase], file []byte, pw, secret []byte, origin string) {
	view, vs := viewFile(file, len(secret))
	if view == nil || len(vs) > 0 {
		rt.Fatalf("harness: base file of a tamper sweep is not a V3 document: %v", vs)
	}
	base := TamperCase{File: string(file), Password: hx(pw), Secret: hx(secret)}
	first := true
	run := func(c TamperCase) {
		c.CheckBase = first
		first = false
		k.Check(rt, c, true, "tamper:"+origin+":"+c.Field)
		if offerTamper != nil && (c.Field == "n" || c.Field == "r" || c.Field == "p" || c.Field == "c" || c.Pos%8 == 0) {
			c.CheckBase = true // under concurrency: the intact file is read, then the altered copy
			offerTamper(c)
		}
	}
	for _, f := range []struct {
		name string
		n    int
	}{{"ciphertext", len(view.ct)}, {"mac", len(view.mac)}, {"salt", len(view.salt)}} {
		for pos := 0; pos < f.n; pos++ {
			c := base
			c.Field, c.Pos = f.name, pos
			c.Delta = rapid.IntRange(1, 255).Draw(rt, fmt.Sprintf("%s.%d", f.name, pos))
			if pos%8 == 0 {
				c.Delta = 1 << uint(rapid.IntRange(0, 7).Draw(rt, fmt.Sprintf("%s.%d.bit", f.name, pos))) // single-bit flips too
			}
			run(c)
		}
	}
	num := func(name string) int64 {
		var v int64
		if err := json.Unmarshal(view.params[name], &v); err != nil {
			rt.Fatalf("harness: kdfparams.%s: %v", name, err)
		}
		return v
	}
	change := func(name string, old int64, values ...int64) {
		seen := map[int64]bool{old: true}
		for _, v := range values {
			if seen[v] {
				continue
			}
			seen[v] = true
			c := base
			c.Field, c.Value = name, v
			run(c)
		}
	}
	if view.kdf == "scrypt" {
		n, r, p := num("n"), num("r"), num("p")
		change("n", n, n*2, n/2, n*4, n+1, n-1, 0, 1, -n, 3, int64(rapid.IntRange(2, 1<<12).Draw(rt, "n.other")), 1<<uint(rapid.IntRange(1, 13).Draw(rt, "n.otherPow2")))
		change("r", r, r+1, r-1, r*2, 0, -r, 1, 8, int64(rapid.IntRange(1, 16).Draw(rt, "r.other")))
		change("p", p, p+1, p-1, p*2, 0, -p, 1, 2, int64(rapid.IntRange(1, 8).Draw(rt, "p.other")))
	} else {
		c := num("c")
		vals := []int64{c + 1, c * 2, c + 256, int64(rapid.IntRange(1, 4096).Draw(rt, "c.other"))}
		if c > 1 {
			vals = append(vals, c-1, c/2, 1)
		}
		change("c", c, vals...)
	}
	change("dklen", 32, 31, 33, 64, 16, 0, -1, 48, 128, int64(rapid.IntRange(1, 256).Draw(rt, "dklen.other")))
}

// ---- entry points -----------------------------------------------------------------------------------------

func kinds(rec *evid.Recorder) (*evid.Kind[LibFileCase], *evid.Kind[ExtFileCase], *evid.Kind[TamperCase]) {
	return evid.NewKind(rec, "libfile", judgeLibFile), evid.NewKind(rec, "extfile", judgeExtFile), evid.NewKind(rec, "tamper", judgeTamper)
}

// more holds the kinds for histories and concurrent callers (registered in TestReplay too).
type more struct {
	kHist      *evid.Kind[HistCase]
	poolLib    *evid.Pool[LibFileCase]
	poolExt    *evid.Pool[ExtFileCase]
	poolTamper *evid.Pool[TamperCase]
	poolHist   *evid.Pool[HistCase]
}

func moreKinds(rec *evid.Recorder, on bool) more {
	max := func(n int) int {
		if on {
			return n
		}
		return 0
	}
	return more{
		kHist:      evid.NewKind(rec, "hist", judgeHist),
		poolLib:    evid.NewPool(rec, "concurrent-libfile", judgeLibFile, max(16)),
		poolExt:    evid.NewPool(rec, "concurrent-extfile", judgeExtFile, max(16)),
		poolTamper: evid.NewPool(rec, "concurrent-tamper", judgeTamper, max(64)),
		poolHist:   evid.NewPool(rec, "concurrent-hist", judgeHist, max(16)),
	}
}

func TestCheck(t *testing.T) {
	rec := evid.Start("C07", rule)
	defer rec.Finish()
	rec.Assume("reference: ref/v3ref (Web3 Secret Storage V3 written from the specification, own PBKDF2, anchored to the published scrypt/PBKDF2 vectors and the repository's sample files); scrypt core and AES/Keccak primitives are trusted; addresses from ref/secp")
	rec.Assume("not asserted: detection of IV tampering (the V3 MAC does not cover the IV); PBKDF2 c <= 0; freshness holds up to a 2^-100 collision chance; metadata numbers are compared as the float64 values JSON decoding yields")
	rec.Assume("passwords that HMAC-SHA-256 maps to the same key block (trailing NUL bytes below 64 bytes; a password longer than 64 bytes and its SHA-256) are the same password for every V3 implementation and are not used as 'another password'")
	rec.Assume("the library draws salt, IV and id from crypto/rand, so two runs judge different files; verdicts do not depend on the drawn values")
	rec.Assume("kind hist (histories) and the concurrent kinds judge each read by the independent reader's verdict for that file and password alone; every read hands file and password over as sub-slices of one buffer with spare capacity, which must come back untouched and is overwritten right after the call")
	kLib, kExt, kTamper := kinds(rec)
	m := moreKinds(rec, true)
	rec.Corpus(t)

	rec.Rapid(t, "libfile", rec.N(150, 1500), func(rt *rapid.T) {
		c, nt, cl := genLibFile(rt, 2)
		kLib.Check(rt, c, nt, cl...)
		m.poolLib.Offer(c)
	})

	rec.Rapid(t, "extfile", rec.N(300, 3000), func(rt *rapid.T) {
		c, nt, cl := genExtFile(rt, 2, false, "")
		kExt.Check(rt, c, nt, cl...)
		m.poolExt.Offer(c)
	})

	// histories: related files created and read one after the other in this process
	rec.Rapid(t, "hist", rec.N(200, 800), func(rt *rapid.T) {
		c, cl := genHist(rt, !rec.Thorough())
		m.kHist.Check(rt, c, true, cl...)
		m.poolHist.Offer(c)
	})

	offerTamper = m.poolTamper.Offer
	defer func() { offerTamper = nil }()
	// full tamper sweeps over files written by the independent implementation (cheap parameters)
	for _, kdf := range []string{"scrypt", "pbkdf2"} {
		kdf := kdf
		rec.Rapid(t, "tamper-external-"+kdf, rec.N(2, 6), func(rt *rapid.T) {
			c, _, _ := genExtFile(rt, 0, true, kdf)
			s, _, err := c.spec()
			if err != nil {
				rt.Fatalf("harness: %v", err)
			}
			file, err := v3ref.Write(s)
			if err != nil {
				rt.Fatalf("harness: %v", err)
			}
			sweep(rt, kTamper, file, s.Password, s.Secret, "external-"+c.KDF)
		})
	}

	// full tamper sweeps over files written by the library itself
	rec.Rapid(t, "tamper-library", rec.N(1, 20), func(rt *rapid.T) {
		c, _, _ := genLibFile(rt, 0)
		if !rec.Thorough() && c.Ctor == "light" {
			c.Ctor = "standard" // the cheaper preset in the quick tier
		}
		secret, pw := unhx(c.Secret), unhx(c.Password)
		w, pv := construct(c.Ctor, string(pw), secret)
		if pv != nil {
			rt.Fatalf("constructor panicked: %s", pv.Detail)
		}
		sweep(rt, kTamper, w.JSON(), pw, secret, "library")
	})
	// the same judges from several goroutines at once (state shared between calls)
	m.poolLib.Run(t, 8, 2, 16)
	m.poolExt.Run(t, 8, 2, 16)
	m.poolTamper.Run(t, 8, 3, 32)
	m.poolHist.Run(t, 8, 2, 8)
	fresh.Lock()
	rec.Extra("library_files_with_pairwise_distinct_salt_and_iv", len(fresh.salts))
	fresh.Unlock()
}

func TestReplay(t *testing.T) {
	rec := evid.Start("C07", rule)
	kinds(rec)
	moreKinds(rec, false)
	rec.Replay(t)
}
