package c11

// Sequence kinds of C11: what a single decode call cannot show.
//
//	shared    (F3) several goroutines, released together, decode (valid and malformed) inputs with ONE
//	          freshly parsed and validated definition - first use included - a fresh definition every
//	          round; every outcome (error text or tree) must be the sequential one, and the process
//	          must survive (a fatal runtime error is attributed through the declared-case file).
//	retention (F1, metamorphic memory) N decodes, each against a freshly parsed definition that is
//	          dropped afterwards: the live heap afterwards may exceed the live heap before by no more
//	          than a few definitions' worth (the unit is measured by holding a known number alive),
//	          i.e. memory follows the data and type in use, not the number of calls ever made.

import (
	"encoding/hex"
	"encoding/json"
	"fmt"
	"runtime"
	"sync"

	"github.com/hyperledger/firefly-signer/pkg/abi"
	"github.com/hyperledger/firefly-signer/pkg/ethtypes"
	"pgregory.net/rapid"

	"verifharness/evid"
	"verifharness/gen/abigen"
	"verifharness/gen/abigen/abilib"
	"verifharness/ref/abiref"
)

// Input is one decoder input of a sequence case.
type Input struct {
	Data   string   `json:"data"`             // hex (call/error: including the selector)
	Topics []string `json:"topics,omitempty"` // event entries
}

// SharedCase: Workers goroutines decode Inputs through one fresh definition, Rounds times.
type SharedCase struct {
	Entry     string  `json:"entry"`
	Name      string  `json:"name,omitempty"`
	Decl      string  `json:"decl"`
	Anonymous bool    `json:"anonymous,omitempty"`
	Inputs    []Input `json:"inputs"`
	Workers   int     `json:"workers"`
	Rounds    int     `json:"rounds"`
}

type plainOutcome struct {
	cv  *abi.ComponentValue
	err string
}

// decodePlain is decode without the memory measurement (which uses process-wide state).
func decodePlain(p *prepared, entry string, data []byte, topics []ethtypes.HexBytes0xPrefix) (o plainOutcome, pv *evid.Violation) {
	in := append([]byte{}, data...)
	var cv *abi.ComponentValue
	var err error
	pv = evid.Guard("no-panic", func() {
		switch entry {
		case "data":
			cv, err = p.pa.DecodeABIData(in, 0)
		case "call":
			cv, err = p.entry.DecodeCallData(in)
		case "event":
			tc := make([]ethtypes.HexBytes0xPrefix, len(topics))
			for i := range topics {
				tc[i] = append(ethtypes.HexBytes0xPrefix{}, topics[i]...)
			}
			cv, err = p.entry.DecodeEventData(tc, in)
		case "error":
			var ok bool
			if _, cv, ok = p.abi.ParseError(in); !ok {
				cv, err = nil, fmt.Errorf("no error definition matches")
			}
		}
	})
	if pv != nil {
		return o, pv
	}
	switch {
	case err != nil:
		o.err = err.Error()
	case cv == nil:
		o.err = "nil tree without an error"
	default:
		o.cv = cv
	}
	return o, nil
}

func samePlain(a, b *plainOutcome) (bool, string) {
	if (a.cv == nil) != (b.cv == nil) {
		return false, fmt.Sprintf("one call returned a tree, the other the error %q", a.err+b.err)
	}
	if a.cv == nil {
		if a.err != b.err {
			return false, fmt.Sprintf("error %q vs %q", a.err, b.err)
		}
		return true, ""
	}
	return treeEqual(a.cv, b.cv, "")
}

func judgeShared(c SharedCase) (vs []evid.Violation) {
	type in struct {
		data   []byte
		topics []ethtypes.HexBytes0xPrefix
		want   plainOutcome
	}
	if len(c.Inputs) == 0 {
		return []evid.Violation{evid.V("harness", "no inputs")}
	}
	ref := newPrepared(c.Entry, c.Name, c.Decl, c.Anonymous)
	if ref.err != nil {
		return []evid.Violation{evid.V("harness", "bad case: %v", ref.err)}
	}
	ins := make([]in, len(c.Inputs))
	for i, x := range c.Inputs {
		var err error
		if ins[i].data, err = hex.DecodeString(x.Data); err != nil || len(ins[i].data) > maxInput {
			return []evid.Violation{evid.V("harness", "bad input %d", i)}
		}
		if ins[i].topics, err = hexTopics(x.Topics); err != nil {
			return []evid.Violation{evid.V("harness", "bad topic hex")}
		}
		// the sequential outcome, on a definition of its own
		var pv *evid.Violation
		if ins[i].want, pv = decodePlain(ref, c.Entry, ins[i].data, ins[i].topics); pv != nil {
			pv.Detail = fmt.Sprintf("input %d alone: %s", i, pv.Detail)
			return append(vs, *pv)
		}
	}
	workers := c.Workers
	if workers < 2 {
		workers = 2
	}
	var mu sync.Mutex
	for round := 0; round < c.Rounds && len(vs) == 0; round++ {
		p := newPrepared(c.Entry, c.Name, c.Decl, c.Anonymous)
		if p.err != nil {
			return []evid.Violation{evid.V("harness", "%v", p.err)}
		}
		bar := abilib.NewBarrier(workers)
		var wg sync.WaitGroup
		for w := 0; w < workers; w++ {
			wg.Add(1)
			go func(w int) {
				defer wg.Done()
				bar.Wait()
				for n := 0; n < len(ins); n++ {
					i := (w + n) % len(ins)
					got, pv := decodePlain(p, c.Entry, ins[i].data, ins[i].topics)
					var v *evid.Violation
					if pv != nil {
						v = pv
					} else if ok, why := samePlain(&got, &ins[i].want); !ok {
						x := evid.V("outcome-equals-sequential", "%s", why)
						v = &x
					}
					if v != nil {
						mu.Lock()
						vs = append(vs, evid.V("shared-definition:"+v.Clause, "round %d: %d goroutines decode with ONE freshly validated definition of %s %s; input %d (%s) alone gives another outcome: %s",
							round, workers, c.Entry, c.Decl, i, short(ins[i].data), v.Detail))
						mu.Unlock()
						return
					}
				}
			}(w)
		}
		wg.Wait()
	}
	if len(vs) > 1 {
		vs = vs[:1]
	}
	return vs
}

// ---------------------------------------------------------------- retention

// RetentionCase: N decodes of Input, each against a freshly parsed definition.
type RetentionCase struct {
	Entry     string `json:"entry"`
	Name      string `json:"name,omitempty"`
	Decl      string `json:"decl"`
	Anonymous bool   `json:"anonymous,omitempty"`
	Input     Input  `json:"input"`
	N         int    `json:"n"`
}

const (
	retentionHeld  = 32         // definitions held alive to measure the unit
	retentionUnits = 16         // growth allowed, in units
	retentionSlack = 512 * 1024 // plus this many bytes
)

var msLive runtime.MemStats

func liveHeap() int64 {
	runtime.GC()
	runtime.GC()
	runtime.ReadMemStats(&msLive)
	return int64(msLive.HeapAlloc)
}

// lastRetention is the measurement of the most recent retention judgement (for the evidence classes).
var lastRetention struct{ unit, growth int64 }

func judgeRetention(c RetentionCase) (vs []evid.Violation) {
	probe := newPrepared(c.Entry, c.Name, c.Decl, c.Anonymous)
	if probe.err != nil {
		return []evid.Violation{evid.V("harness", "bad case: %v", probe.err)}
	}
	data, err := hex.DecodeString(c.Input.Data)
	if err != nil || len(data) > maxInput || c.N < 1 || c.N > 200000 {
		return []evid.Violation{evid.V("harness", "bad case")}
	}
	topics, err := hexTopics(c.Input.Topics)
	if err != nil {
		return []evid.Violation{evid.V("harness", "bad topic hex")}
	}
	kind := map[string]string{"data": "function", "call": "function", "event": "event", "error": "error"}[c.Entry]
	name := c.Name
	if name == "" {
		name = "f"
	}
	entryJSON := abigen.EntryJSON(kind, name, probe.ty, c.Anonymous)
	type held struct {
		p  *prepared
		cv *abi.ComponentValue
	}
	var pvSeen *evid.Violation
	once := func() held {
		var e abi.Entry
		if err := json.Unmarshal(entryJSON, &e); err != nil {
			panic(err)
		}
		_ = e.Validate()
		p := &prepared{entry: &e, pa: e.Inputs, abi: abi.ABI{&e}}
		o, pv := decodePlain(p, c.Entry, data, topics)
		if pv != nil && pvSeen == nil {
			pvSeen = pv
		}
		return held{p, o.cv}
	}
	// warm-up: lazily initialised state of the library and the runtime (message catalogues, caches, pools)
	for i := 0; i < 64; i++ {
		_ = once()
	}
	if pvSeen != nil {
		return append(vs, *pvSeen)
	}
	// the unit: what one definition and its decoded tree occupy while the caller holds them
	h0 := liveHeap()
	keep := make([]held, 0, retentionHeld)
	for i := 0; i < retentionHeld; i++ {
		keep = append(keep, once())
	}
	h1 := liveHeap()
	runtime.KeepAlive(keep)
	unit := (h1 - h0) / retentionHeld
	if unit < 256 {
		unit = 256
	}
	keep = nil
	// N calls, nothing kept
	before := liveHeap()
	for i := 0; i < c.N; i++ {
		_ = once()
	}
	after := liveHeap()
	growth := after - before
	lastRetention.unit, lastRetention.growth = unit, growth
	if bound := retentionUnits*unit + retentionSlack; growth > bound {
		vs = append(vs, evid.V("memory-follows-use-not-history", "%s of %s: after %d decode calls (%d bytes of data each), each against a freshly parsed definition and with nothing kept by the caller, the live heap is %d bytes larger than before (%d bytes per call); one definition with its decoded tree occupies %d bytes while held, allowed growth %d x that + %d = %d bytes",
			c.Entry, c.Decl, c.N, len(data), growth, growth/int64(c.N), unit, retentionUnits, retentionSlack, bound))
	}
	return vs
}

// ---------------------------------------------------------------- generation

func hasTupleOrFixedArrayBelowRoot(ty *abiref.Type) bool {
	r := false
	ty.Walk(func(t *abiref.Type, d int) {
		if d > 0 && (t.Kind == abiref.Tuple || t.Kind == abiref.Array) {
			r = true
		}
	})
	return r
}

func inputOf(b *base, data []byte) Input {
	return Input{Data: hex.EncodeToString(data), Topics: append([]string{}, b.c.Topics...)}
}

func genSharedCase(rt *rapid.T) (SharedCase, bool, []string) {
	entry := rapid.SampledFrom([]string{"data", "data", "call", "event", "error"}).Draw(rt, "entry")
	var b *base
	cl := []string{"entry:" + entry}
	wide := entry != "event" && rapid.IntRange(0, 2).Draw(rt, "wide") == 0
	if wide {
		ty := abigen.Wide(rt, "w", 100, 600)
		v := abigen.PatternValue(ty, rapid.Uint64().Draw(rt, "salt"))
		raw, words, err := abiref.Enc(ty, v)
		if err != nil {
			rt.Fatalf("harness: %v", err)
		}
		b = &base{ty: ty, raw: raw, words: words}
		b.c = Case{Entry: entry, Decl: ty.Decl()}
		if entry != "data" {
			b.c.Name = rapid.SampledFrom(entryNames).Draw(rt, "name")
			b.raw = append(abiref.Selector(abiref.Signature(b.c.Name, ty)), raw...)
			for i := range b.words {
				b.words[i].Pos += 4
			}
		}
		cl = append(cl, "shape:wide-late-dynamic")
	} else {
		b = genBase(rt, entry)
		cl = append(cl, b.shape...)
	}
	c := SharedCase{Entry: entry, Name: b.c.Name, Decl: b.c.Decl, Anonymous: b.c.Anonymous,
		Workers: rapid.SampledFrom([]int{2, 4, 4, 8}).Draw(rt, "workers"), Rounds: rapid.IntRange(10, 40).Draw(rt, "rounds")}
	c.Inputs = append(c.Inputs, inputOf(b, b.raw))
	n := len(b.raw)
	// mild mutants (nothing that could ask for much memory): truncations and small replacement words
	for i := 0; i < 3 && n > 0; i++ {
		c.Inputs = append(c.Inputs, inputOf(b, b.raw[:rapid.IntRange(0, n-1).Draw(rt, fmt.Sprintf("cut%d", i))]))
	}
	for i := 0; i < 3 && len(b.words) > 0; i++ {
		w := b.words[rapid.IntRange(0, len(b.words)-1).Draw(rt, fmt.Sprintf("word%d", i))]
		var small []namedVal
		for _, bv := range boundaryValues(n, w.Val) {
			if bv.v.BitLen() <= 17 {
				small = append(small, bv)
			}
		}
		bv := small[rapid.IntRange(0, len(small)-1).Draw(rt, fmt.Sprintf("bv%d", i))]
		c.Inputs = append(c.Inputs, inputOf(b, withWord(b.raw, w.Pos, bv.v)))
	}
	return c, hasTupleOrFixedArrayBelowRoot(b.ty), append(cl, fmt.Sprintf("workers:%d", c.Workers))
}

func genRetentionCase(rt *rapid.T) (RetentionCase, bool, []string) {
	entry := rapid.SampledFrom([]string{"data", "data", "call", "event", "error"}).Draw(rt, "entry")
	b := genBase(rt, entry)
	if len(b.raw) > 4096 {
		rt.Skip("long input")
	}
	c := RetentionCase{Entry: entry, Name: b.c.Name, Decl: b.c.Decl, Anonymous: b.c.Anonymous, Input: inputOf(b, b.raw),
		N: rapid.SampledFrom([]int{6000, 10000}).Draw(rt, "n")}
	if len(b.raw) > 0 && rapid.IntRange(0, 3).Draw(rt, "truncated") == 0 {
		// a malformed input: the error path must not retain anything either
		c.Input = inputOf(b, b.raw[:rapid.IntRange(0, len(b.raw)-1).Draw(rt, "cut")])
	}
	return c, hasTupleOrFixedArrayBelowRoot(b.ty), append([]string{"entry:" + entry}, b.shape...)
}
