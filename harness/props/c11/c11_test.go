// Package c11 decides property C11: decoding arbitrary bytes against a valid ABI
// definition (as return data, call data, event topics+data or revert data) is total
// (an error or a value tree, never a panic or a runaway allocation), a returned tree
// serialises in every formatting mode, a tree that can be re-encoded decodes from that
// encoding to an equal tree, and the memory used follows the data supplied and the type,
// not the magnitude of the offset/length words inside the data.
//
// Inputs are VALID encodings built by the independent reference encoder ref/abiref, which
// also reports the byte position of every offset word and every length word it wrote.  A
// case is (entry point, parameter list, base bytes, one mutation): a bookkeeping word
// replaced by a boundary value, a truncation, an insertion, or a mutated topic list.  The
// judge applies the mutation, runs the library and checks
//
//	no-panic            the call returns
//	serialises          SerializeJSON of a returned tree succeeds in all three formatting modes
//	reencode-stable     if EncodeABIData(tree) succeeds, DecodeABIData of those bytes yields an equal tree
//	memory-metamorphic  for a word replaced by a value V beyond what the data can satisfy (V > len),
//	                    TotalAlloc(decode with V) <= TotalAlloc(decode with len+1) + 1 MiB
//	memory-anchored     TotalAlloc(decode mutant) <= 64 * TotalAlloc(decode of the valid base) + 1 MiB
//	input-not-written   the input is handed over inside a larger caller-owned buffer; the call leaves it (and the topics) alone
//
// and, over sequences of calls (seq_test.go): kind "shared" (goroutines decoding with one fresh
// definition give the sequential outcomes and the process survives) and kind "retention" (live
// heap does not grow with the number of decodes against freshly parsed, dropped definitions).
//
// Memory is measured as the runtime.MemStats.TotalAlloc delta around the library call on
// the judging goroutine; no absolute number is asserted.
package c11

import (
	"bytes"
	"encoding/hex"
	"encoding/json"
	"flag"
	"fmt"
	"math/big"
	"os"
	"path/filepath"
	"runtime"
	"strings"
	"syscall"
	"testing"

	"github.com/hyperledger/firefly-signer/pkg/abi"
	"github.com/hyperledger/firefly-signer/pkg/ethtypes"
	"github.com/sirupsen/logrus"
	"pgregory.net/rapid"

	"verifharness/evid"
	"verifharness/gen"
	"verifharness/gen/abigen"
	"verifharness/gen/abigen/abilib"
	"verifharness/ref/abiref"
)

const rule = "a case is non-trivial when its mutation was actually reached by the decoder (the outcome — error text or value tree — differs from " +
	"the outcome of the unmutated base bytes), or when it truncates the input inside the tail (past the head of the top-level parameter list); " +
	"distinct by hash of (entry point, parameter list, base bytes, topics, mutation)"

const (
	mib          = 1 << 20
	anchorFactor = 64
	riskyFrom    = 1 << 20 // replacement words >= this are declared risky before they are judged
	maxInput     = 1 << 16
)

// Case is one decoder input.
type Case struct {
	Entry      string   `json:"entry"`                // "data": ParameterArray.DecodeABIData | "call": Entry.DecodeCallData | "event": Entry.DecodeEventData | "error": ABI.ParseError + ErrorString
	Name       string   `json:"name,omitempty"`       // name of the function / event / error entry
	Decl       string   `json:"decl"`                 // abiref declaration of the parameter list, e.g. "(uint8 a,(string,bytes3)[] indexed b)"
	Anonymous  bool     `json:"anonymous,omitempty"`  // event entries
	Base       string   `json:"base"`                 // hex: the bytes before the mutation (call/error: including the four selector bytes)
	Valid      bool     `json:"valid,omitempty"`      // Base was produced by the reference encoder for Decl: the anchored memory clause applies
	Topics     []string `json:"topics,omitempty"`     // event entries: the topics handed to the decoder (hex, any width)
	BaseTopics []string `json:"baseTopics,omitempty"` // event entries with a mutated topic list: the topics before the mutation (with Base they form the unmutated input)
	Op         string   `json:"op,omitempty"`         // "" (Base as it is) | "word" | "trunc" | "insert"
	Pos        int      `json:"pos,omitempty"`        // byte position of the mutation in Base
	Word       string   `json:"word,omitempty"`       // op word: the 32-byte replacement (hex)
	WordKind   string   `json:"wordKind,omitempty"`   // op word: what the reference wrote there (offset | array-len | bytes-len), informational
	Ins        string   `json:"ins,omitempty"`        // op insert: the inserted bytes (hex)
	Scan       bool     `json:"scan,omitempty"`       // arbitrary bytes: every aligned word beyond len is a candidate for the metamorphic memory clause
}

// ---- prepared definitions (memoised; a pure function of the case)

type prepared struct {
	key       string
	err       error
	ty        *abiref.Type
	pa        abi.ParameterArray
	entry     *abi.Entry
	abi       abi.ABI
	off       int  // where the ABI data starts inside the input (4 behind a selector)
	headSize  int  // size of the head of the top-level parameter list (data arguments only for events)
	stability bool // the returned tree is typed by the parameter list itself (no raw-topic substitution)
}

var prepCache = map[string]*prepared{}

func prepare(c *Case) *prepared {
	key := c.Entry + "\x00" + c.Name + "\x00" + c.Decl + "\x00" + fmt.Sprint(c.Anonymous)
	if p, ok := prepCache[key]; ok {
		return p
	}
	if len(prepCache) > 256 {
		prepCache = map[string]*prepared{}
	}
	p := newPrepared(c.Entry, c.Name, c.Decl, c.Anonymous)
	p.key = key
	prepCache[key] = p
	return p
}

// newPrepared builds fresh library objects (nothing shared with any earlier definition) and validates them.
func newPrepared(entry, entryName, decl string, anonymous bool) *prepared {
	c := &Case{Entry: entry, Name: entryName, Decl: decl, Anonymous: anonymous}
	p := &prepared{stability: true}
	ty, err := abiref.ParseDecl(c.Decl)
	if err != nil {
		p.err = err
		return p
	}
	if ty.Kind != abiref.Tuple {
		p.err = fmt.Errorf("the parameter list must be a tuple")
		return p
	}
	if ty.HasZeroSizeArrayElem() {
		p.err = fmt.Errorf("array element types of zero encoded size are outside the quantifier")
		return p
	}
	p.ty = ty
	kind := map[string]string{"data": "function", "call": "function", "event": "event", "error": "error"}[c.Entry]
	if kind == "" {
		p.err = fmt.Errorf("unknown entry %q", c.Entry)
		return p
	}
	name := c.Name
	if name == "" {
		name = "f"
	}
	var e abi.Entry
	if err := json.Unmarshal(abigen.EntryJSON(kind, name, ty, c.Anonymous), &e); err != nil {
		p.err = err
		return p
	}
	if err := e.Validate(); err != nil {
		p.err = fmt.Errorf("the library refuses the definition: %v", err)
		return p
	}
	p.entry = &e
	p.pa = e.Inputs
	p.abi = abi.ABI{&e}
	p.headSize = ty.HeadSize()
	switch c.Entry {
	case "call", "error":
		p.off = 4
	case "event":
		p.headSize = 0
		for _, m := range ty.Members {
			if !m.Indexed {
				p.headSize += m.Type.HeadSize()
				continue
			}
			switch m.Type.Kind {
			case abiref.Uint, abiref.Int, abiref.Address, abiref.Bool, abiref.Function, abiref.Fixed, abiref.Ufixed:
			default:
				// surfaced as the raw topic under a substituted "bytes" type: the tree is no longer typed by the parameter list
				p.stability = false
			}
		}
	}
	return p
}

// ---- running the library

var msA, msB runtime.MemStats

// measured runs f and returns the bytes allocated meanwhile (TotalAlloc delta).
func measured(f func()) (alloc uint64, pv *evid.Violation) {
	runtime.ReadMemStats(&msA)
	pv = evid.Guard("no-panic", f)
	runtime.ReadMemStats(&msB)
	return msB.TotalAlloc - msA.TotalAlloc, pv
}

type result struct {
	cv    *abi.ComponentValue
	err   string // non-empty when no tree was returned
	alloc uint64
	pv    *evid.Violation
	own   *abilib.Owned // the caller-owned buffer the data was decoded from
}

func hexTopics(ts []string) ([]ethtypes.HexBytes0xPrefix, error) {
	out := make([]ethtypes.HexBytes0xPrefix, len(ts))
	for i, s := range ts {
		b, err := hex.DecodeString(s)
		if err != nil {
			return nil, err
		}
		out[i] = b
	}
	return out, nil
}

func (p *prepared) decode(c *Case, data []byte, topics []ethtypes.HexBytes0xPrefix) (r result) {
	// the input is handed over inside a larger caller-owned buffer (F2): the call must not write to it
	own := abilib.NewOwned(data)
	in := own.Bytes()
	r.own = own
	var cv *abi.ComponentValue
	var err error
	var tc []ethtypes.HexBytes0xPrefix
	switch c.Entry {
	case "data":
		r.alloc, r.pv = measured(func() { cv, err = p.pa.DecodeABIData(in, 0) })
	case "call":
		r.alloc, r.pv = measured(func() { cv, err = p.entry.DecodeCallData(in) })
	case "event":
		tc = make([]ethtypes.HexBytes0xPrefix, len(topics))
		for i := range topics {
			tc[i] = append(ethtypes.HexBytes0xPrefix{}, topics[i]...)
		}
		r.alloc, r.pv = measured(func() { cv, err = p.entry.DecodeEventData(tc, in) })
	case "error":
		var ok bool
		r.alloc, r.pv = measured(func() { _, cv, ok = p.abi.ParseError(in) })
		if r.pv == nil && !ok {
			cv, err = nil, fmt.Errorf("no error definition matches")
		}
	}
	if r.pv != nil {
		r.pv.Detail = c.Entry + ": " + r.pv.Detail
		return r
	}
	written := !own.Unchanged()
	for i := range tc {
		if !bytes.Equal(tc[i], topics[i]) {
			written = true
		}
	}
	if written {
		v := evid.V("input-not-written", "%s of %s: the decoder wrote to the caller's input (data buffer, the memory around it, or a topic); input %s", c.Entry, c.Decl, short(data))
		r.pv = &v
		return r
	}
	if err != nil {
		r.err = err.Error()
		return r
	}
	if cv == nil {
		r.err = "nil tree without an error"
		return r
	}
	r.cv = cv
	return r
}

func treeEqual(a, b *abi.ComponentValue, path string) (bool, string) {
	if a == nil || b == nil {
		if a == b {
			return true, ""
		}
		return false, path + ": one side is nil"
	}
	if (a.Component == nil) != (b.Component == nil) {
		return false, path + ": component missing on one side"
	}
	if a.Component != nil && a.Component.String() != b.Component.String() {
		return false, fmt.Sprintf("%s: type %s vs %s", path, a.Component.String(), b.Component.String())
	}
	if len(a.Children) != len(b.Children) {
		return false, fmt.Sprintf("%s: %d vs %d children", path, len(a.Children), len(b.Children))
	}
	switch av := a.Value.(type) {
	case nil:
		if b.Value != nil {
			return false, path + ": value only on one side"
		}
	case *big.Int:
		bv, ok := b.Value.(*big.Int)
		if !ok || av.Cmp(bv) != 0 {
			return false, fmt.Sprintf("%s: integer %v vs %v", path, av, b.Value)
		}
	case *big.Float:
		bv, ok := b.Value.(*big.Float)
		if !ok || av.Cmp(bv) != 0 {
			return false, fmt.Sprintf("%s: fixed-point %v vs %v", path, av.Text('g', 90), b.Value)
		}
	case []byte:
		bv, ok := b.Value.([]byte)
		if !ok || !bytes.Equal(av, bv) {
			return false, fmt.Sprintf("%s: bytes %x vs %x", path, av, b.Value)
		}
	case string:
		bv, ok := b.Value.(string)
		if !ok || av != bv {
			return false, fmt.Sprintf("%s: string %q vs %q", path, av, b.Value)
		}
	default:
		return false, fmt.Sprintf("%s: value of unexpected Go type %T", path, a.Value)
	}
	for i := range a.Children {
		if ok, why := treeEqual(a.Children[i], b.Children[i], fmt.Sprintf("%s/%d", path, i)); !ok {
			return false, why
		}
	}
	return true, ""
}

// hasNegativeFixed reports a negative fixed<M>x<N> value somewhere in the tree.
func hasNegativeFixed(cv *abi.ComponentValue) bool {
	if cv == nil {
		return false
	}
	if f, ok := cv.Value.(*big.Float); ok && f.Sign() < 0 {
		return true
	}
	for _, ch := range cv.Children {
		if hasNegativeFixed(ch) {
			return true
		}
	}
	return false
}

func sameOutcome(a, b *result) bool {
	if (a.cv == nil) != (b.cv == nil) {
		return false
	}
	if a.cv == nil {
		return a.err == b.err
	}
	ok, _ := treeEqual(a.cv, b.cv, "")
	return ok
}

func short(b []byte) string {
	if len(b) > 96 {
		return fmt.Sprintf("%x…(%d bytes)", b[:96], len(b))
	}
	return fmt.Sprintf("%x", b)
}

// ---- the judge

type outcome struct {
	tree, reached, inTail, pair, anchored, negFixedSkipped bool
	reenc                                                  string
}

// last is the classification of the most recent judge call (single-threaded use).
var last outcome

// negFixedOpen is set when the known finding "negative fixed<M>x<N> re-encodes as its absolute
// value" is listed as open for C11 and its probe still fails: trees holding such a value are
// then kept out of the re-encode clause.
var negFixedOpen bool
var excludedNegFixed func()

// memo of the most recent base decode and metamorphic twin
var (
	baseKey  string
	baseRes  result
	twinKey  string
	twinRes  result
	twinData []byte
)

func applyOp(c *Case, base []byte) ([]byte, error) {
	switch c.Op {
	case "":
		return base, nil
	case "word":
		w, err := hex.DecodeString(c.Word)
		if err != nil || len(w) != 32 {
			return nil, fmt.Errorf("op word needs a 32-byte replacement")
		}
		if c.Pos < 0 || c.Pos+32 > len(base) {
			return nil, fmt.Errorf("op word outside the base")
		}
		out := append([]byte{}, base...)
		copy(out[c.Pos:], w)
		return out, nil
	case "trunc":
		if c.Pos < 0 || c.Pos > len(base) {
			return nil, fmt.Errorf("op trunc outside the base")
		}
		return base[:c.Pos], nil
	case "insert":
		ins, err := hex.DecodeString(c.Ins)
		if err != nil {
			return nil, err
		}
		if c.Pos < 0 || c.Pos > len(base) {
			return nil, fmt.Errorf("op insert outside the base")
		}
		out := append([]byte{}, base[:c.Pos]...)
		out = append(out, ins...)
		return append(out, base[c.Pos:]...), nil
	}
	return nil, fmt.Errorf("unknown op %q", c.Op)
}

var serializers = []func() *abi.Serializer{
	func() *abi.Serializer { return abi.NewSerializer().SetFormattingMode(abi.FormatAsObjects) },
	func() *abi.Serializer {
		return abi.NewSerializer().SetFormattingMode(abi.FormatAsFlatArrays).SetIntSerializer(abi.HexIntSerializer0xPrefix).
			SetByteSerializer(abi.HexByteSerializer0xPrefix).SetAddressSerializer(abi.ChecksumAddrSerializer).
			SetFloatSerializer(abi.NumberIfFitsOrBase10StringFloatSerializer)
	},
	func() *abi.Serializer {
		return abi.NewSerializer().SetFormattingMode(abi.FormatAsSelfDescribingArrays).SetIntSerializer(abi.NumberIfFitsOrBase10StringIntSerializer).
			SetByteSerializer(abi.Base64ByteSerializer).SetAddressSerializer(abi.HexAddrSerializerPlain)
	},
}

var modeNames = []string{"FormatAsObjects", "FormatAsFlatArrays", "FormatAsSelfDescribingArrays"}

// judgeTree checks the clauses about a returned tree.
func judgeTree(p *prepared, c *Case, cv *abi.ComponentValue, data []byte) (vs []evid.Violation) {
	for i, mk := range serializers {
		var out []byte
		var err error
		if pv := evid.Guard("serialises", func() { out, err = mk().SerializeJSON(cv) }); pv != nil {
			pv.Detail = modeNames[i] + ": " + pv.Detail
			vs = append(vs, *pv)
			continue
		}
		if err != nil {
			vs = append(vs, evid.V("serialises", "%s: the tree decoded from %s does not serialise: %v", modeNames[i], short(data), err))
		} else if !json.Valid(out) {
			vs = append(vs, evid.V("serialises", "%s: output is not JSON: %.200s", modeNames[i], out))
		}
	}
	if !p.stability {
		return vs
	}
	if negFixedOpen && hasNegativeFixed(cv) {
		last.negFixedSkipped = true
		if excludedNegFixed != nil {
			excludedNegFixed()
		}
		return vs
	}
	var enc []byte
	var err error
	if pv := evid.Guard("no-panic", func() { enc, err = cv.EncodeABIData() }); pv != nil {
		pv.Detail = "EncodeABIData of the returned tree: " + pv.Detail
		return append(vs, *pv)
	}
	if err != nil {
		last.reenc = "refused"
		return vs
	}
	last.reenc = "ok"
	var again *abi.ComponentValue
	if pv := evid.Guard("no-panic", func() { again, err = p.pa.DecodeABIData(enc, 0) }); pv != nil {
		pv.Detail = "DecodeABIData of the re-encoding: " + pv.Detail
		return append(vs, *pv)
	}
	if err != nil {
		return append(vs, evid.V("reencode-stable", "the tree decoded from %s re-encodes to %s, which does not decode: %v", short(data), short(enc), err))
	}
	if ok, why := treeEqual(cv, again, ""); !ok {
		vs = append(vs, evid.V("reencode-stable", "the tree decoded from %s re-encodes to %s, which decodes to a different tree at %s", short(data), short(enc), why))
	}
	return vs
}

func wordAt(data []byte, pos int) *big.Int { return new(big.Int).SetBytes(data[pos : pos+32]) }

func withWord(data []byte, pos int, v *big.Int) []byte {
	out := append([]byte{}, data...)
	for i := pos; i < pos+32; i++ {
		out[i] = 0
	}
	v.FillBytes(out[pos : pos+32])
	return out
}

func judge(c Case) (vs []evid.Violation) {
	last = outcome{}
	p := prepare(&c)
	if p.err != nil {
		return []evid.Violation{evid.V("harness", "bad case: %v", p.err)}
	}
	base, err := hex.DecodeString(c.Base)
	if err != nil {
		return []evid.Violation{evid.V("harness", "bad base hex")}
	}
	topics, err := hexTopics(c.Topics)
	if err != nil {
		return []evid.Violation{evid.V("harness", "bad topic hex")}
	}
	data, err := applyOp(&c, base)
	if err != nil {
		return []evid.Violation{evid.V("harness", "%v", err)}
	}
	if len(data) > maxInput {
		return []evid.Violation{evid.V("harness", "input longer than 64 KiB")}
	}

	res := p.decode(&c, data, topics)
	if res.pv != nil {
		return append(vs, *res.pv)
	}
	if c.Entry == "error" {
		if pv := evid.Guard("no-panic", func() { _, _ = p.abi.ErrorString(append([]byte{}, data...)) }); pv != nil {
			pv.Detail = "ErrorString: " + pv.Detail
			vs = append(vs, *pv)
		}
	}
	if res.cv != nil {
		last.tree = true
		// Not asserted here: that the tree is independent of the caller's buffer.  C11 promises totality, stability
		// of re-encoding and bounded memory; a decoder that hands out views of its input keeps all three.  (The
		// clause used to be here and raised an alarm on such a change in the benign round; value identity under
		// later changes of the buffer is C03's subject, where the clause stays.)
		vs = append(vs, judgeTree(p, &c, res.cv, data)...)
	}

	// the unmutated base: anchor of the memory clause and of the "reached" classification
	if c.Op != "" || c.BaseTopics != nil {
		bt := topics
		if c.BaseTopics != nil {
			if bt, err = hexTopics(c.BaseTopics); err != nil {
				return []evid.Violation{evid.V("harness", "bad topic hex")}
			}
		}
		key := p.key + "\x00" + c.Base + "\x00" + strings.Join(c.Topics, ",") + "\x00" + strings.Join(c.BaseTopics, ",")
		if key != baseKey {
			baseRes = p.decode(&c, base, bt)
			baseKey = key
			twinKey = ""
		}
		if baseRes.pv != nil {
			return append(vs, *baseRes.pv)
		}
		last.reached = !sameOutcome(&res, &baseRes)
		last.inTail = c.Op == "trunc" && c.Pos >= p.off+p.headSize
		if c.Valid {
			last.anchored = true
			if res.alloc > anchorFactor*baseRes.alloc+mib {
				vs = append(vs, evid.V("memory-anchored", "%s of %s: decoding the mutant (%s at %d) of a valid %d-byte encoding allocated %d bytes, the valid encoding itself %d bytes (bound %d x + 1 MiB); mutant %s",
					c.Entry, c.Decl, c.Op, c.Pos, len(base), res.alloc, baseRes.alloc, anchorFactor, short(data)))
			}
		}
	}

	// metamorphic pairs: the same input with ONE word, beyond what the data can satisfy, made small
	big1 := big.NewInt(int64(len(data) + 1))
	var positions []int
	switch {
	case c.Op == "word":
		positions = []int{c.Pos}
	case c.Scan:
		var under, over []int
		for pos := p.off; pos+32 <= len(data); pos += 32 {
			v := wordAt(data, pos)
			if v.Cmp(big1) > 0 {
				if v.BitLen() <= 33 {
					under = append(under, pos)
				} else {
					over = append(over, pos)
				}
			}
		}
		positions = append(under, over...)
		if len(positions) > 4 {
			positions = positions[:4]
		}
	}
	for _, pos := range positions {
		v := wordAt(data, pos)
		if v.Cmp(big1) <= 0 {
			continue
		}
		var tw *result
		if c.Op == "word" {
			key := fmt.Sprintf("%s\x00%d\x00%d", baseKey, pos, len(data))
			if key != twinKey {
				twinData = withWord(data, pos, big1)
				twinRes = p.decode(&c, twinData, topics)
				twinKey = key
			}
			tw = &twinRes
		} else {
			twinData = withWord(data, pos, big1)
			r := p.decode(&c, twinData, topics)
			tw = &r
		}
		if tw.pv != nil {
			vs = append(vs, *tw.pv)
			continue
		}
		last.pair = true
		if res.alloc > tw.alloc+mib {
			vs = append(vs, evid.V("memory-metamorphic", "%s of %s on %d bytes: with the word at %d = %s the decoder allocated %d bytes, with the same word = %s (equally beyond the data) only %d bytes; input %s",
				c.Entry, c.Decl, len(data), pos, v.String(), res.alloc, big1.String(), tw.alloc, short(data)))
		}
	}
	return vs
}

// ---- generation

func pow2(n uint) *big.Int { return new(big.Int).Lsh(big.NewInt(1), n) }

type namedVal struct {
	name string
	v    *big.Int
}

// boundaryValues are the replacement values for one bookkeeping word of an input of
// length n, in ascending order (so that a moderate runaway allocation is reported by the
// memory clause before a fatal one can kill the worker).
func boundaryValues(n int, orig int) []namedVal {
	m1 := func(x *big.Int) *big.Int { return new(big.Int).Sub(x, big.NewInt(1)) }
	vals := []namedVal{
		{"0", big.NewInt(0)}, {"1", big.NewInt(1)}, {"31", big.NewInt(31)}, {"32", big.NewInt(32)},
		{"len/32", big.NewInt(int64(n / 32))}, {"len/32+1", big.NewInt(int64(n/32 + 1))},
		{"orig-32", big.NewInt(int64(orig - 32))}, {"orig+32", big.NewInt(int64(orig + 32))},
		{"len-32", big.NewInt(int64(n - 32))}, {"len", big.NewInt(int64(n))}, {"len+1", big.NewInt(int64(n + 1))},
		{"2^24", pow2(24)}, {"2^28", pow2(28)},
		{"2^31", pow2(31)}, {"2^32-1", m1(pow2(32))}, {"2^32", pow2(32)}, {"2^63", pow2(63)}, {"2^64-1", m1(pow2(64))},
		{"2^255", pow2(255)}, {"2^256-1", m1(pow2(256))},
	}
	out := vals[:0]
	for _, v := range vals {
		if v.v.Sign() >= 0 {
			out = append(out, v)
		}
	}
	return out
}

func word32(v *big.Int) string {
	var b [32]byte
	v.FillBytes(b[:])
	return hex.EncodeToString(b[:])
}

type base struct {
	c      Case
	raw    []byte
	words  []abiref.Word // positions already shifted by the selector
	ty     *abiref.Type
	shape  []string
	topics [][]byte
}

var entryNames = []string{"f", "transfer", "Error", "Panic", "E", "$_x1"}

func genBase(rt *rapid.T, entry string) *base {
	depth := rapid.SampledFrom([]int{1, 1, 2, 2, 2, 3, 3, 4}).Draw(rt, "depth")
	o := abigen.Opts{}
	if entry == "event" {
		o.Indexed = true
		o.MaxIndexed = 3
	}
	anonymous := entry == "event" && rapid.IntRange(0, 3).Draw(rt, "anonymous") == 0
	if anonymous {
		o.MaxIndexed = 4
	}
	ty := abigen.Params(rt, "t", depth, o)
	if ty.HasZeroSizeArrayElem() {
		rt.Skip("zero-size array element")
	}
	v := abigen.Value(rt, "v", ty)
	aimFixedPoint(rt, "fx", ty, &v)
	b := &base{ty: ty}
	b.c = Case{Entry: entry, Decl: ty.Decl(), Valid: true, Anonymous: anonymous}
	if entry != "data" {
		b.c.Name = rapid.SampledFrom(entryNames).Draw(rt, "name")
	}
	switch entry {
	case "data":
		raw, words, err := abiref.Enc(ty, v)
		if err != nil {
			rt.Fatalf("harness: %v", err)
		}
		b.raw, b.words = raw, words
	case "call", "error":
		raw, words, err := abiref.Enc(ty, v)
		if err != nil {
			rt.Fatalf("harness: %v", err)
		}
		b.raw = append(abiref.Selector(abiref.Signature(b.c.Name, ty)), raw...)
		for i := range words {
			words[i].Pos += 4
		}
		b.words = words
	case "event":
		topics, _, err := abiref.EventLog(b.c.Name, ty, v, anonymous)
		if err != nil {
			rt.Fatalf("harness: %v", err)
		}
		dt := &abiref.Type{Kind: abiref.Tuple}
		var dv abiref.Value
		for i, m := range ty.Members {
			if !m.Indexed {
				dt.Members = append(dt.Members, m)
				dv.Elems = append(dv.Elems, v.Elems[i])
			}
		}
		raw, words, err := abiref.Enc(dt, dv)
		if err != nil {
			rt.Fatalf("harness: %v", err)
		}
		b.raw, b.words, b.topics = raw, words, topics
		for _, t := range topics {
			b.c.Topics = append(b.c.Topics, hex.EncodeToString(t))
		}
	}
	if len(b.raw) > maxInput-64 {
		rt.Skip("too long")
	}
	b.c.Base = hex.EncodeToString(b.raw)
	b.shape = shapeClasses(ty)
	return b
}

// aimFixedPoint moves some fixed-point leaves onto 2^k-1 / 2^k (k >= 56): the scaled integers whose
// neighbours differ in bit length, where a decode at the precision of the integer and a rounding
// re-encode disagree.
func aimFixedPoint(rt *rapid.T, label string, t *abiref.Type, v *abiref.Value) {
	switch t.Kind {
	case abiref.Fixed, abiref.Ufixed:
		top := t.M - 1 // largest k with 2^k in range
		if t.Kind == abiref.Fixed {
			top = t.M - 2
		}
		if top < 56 || rapid.IntRange(0, 2).Draw(rt, label+".aim") != 0 {
			return
		}
		k := rapid.IntRange(56, top).Draw(rt, label+".k")
		x := pow2(uint(k))
		x.Add(x, big.NewInt(int64(rapid.IntRange(-2, 1).Draw(rt, label+".d"))))
		v.Int = x
	case abiref.Array, abiref.Slice:
		for i := range v.Elems {
			aimFixedPoint(rt, fmt.Sprintf("%s[%d]", label, i), t.Elem, &v.Elems[i])
		}
	case abiref.Tuple:
		for i := range v.Elems {
			aimFixedPoint(rt, fmt.Sprintf("%s.%d", label, i), t.Members[i].Type, &v.Elems[i])
		}
	}
}

func shapeClasses(ty *abiref.Type) []string {
	var dynArr, nestedDyn, fixedPt, dynInFixed bool
	maxDepth := 0
	ty.Walk(func(t *abiref.Type, d int) {
		if d > maxDepth {
			maxDepth = d
		}
		switch t.Kind {
		case abiref.Slice:
			dynArr = true
			if t.Elem.IsDynamic() {
				nestedDyn = true
			}
		case abiref.Array:
			if t.Elem.IsDynamic() {
				dynInFixed = true
			}
		case abiref.Fixed, abiref.Ufixed:
			fixedPt = true
		}
	})
	cl := []string{fmt.Sprintf("type-depth:%d", maxDepth)}
	if dynArr {
		cl = append(cl, "type:has-T[]")
	}
	if nestedDyn {
		cl = append(cl, "type:T[]-of-dynamic")
	}
	if dynInFixed {
		cl = append(cl, "type:T[k]-of-dynamic")
	}
	if fixedPt {
		cl = append(cl, "type:has-fixed-point")
	}
	return cl
}

// ---- risky-case declaration (1.6): a worker death is attributed to the declared case

func currentFile(rec *evid.Recorder) string {
	dir := os.Getenv("VERIF_OUT")
	if dir == "" {
		dir = filepath.Join(evid.VerifDir(), ".build", "C11")
	}
	_ = os.MkdirAll(dir, 0o755)
	return filepath.Join(dir, fmt.Sprintf("current-%d.json", rec.Shard))
}

func isRisky(c *Case) bool {
	if c.Scan {
		return true
	}
	if c.Op != "word" {
		return false
	}
	w, err := hex.DecodeString(c.Word)
	return err == nil && new(big.Int).SetBytes(w).BitLen() > 20
}

func declare(path string, c *Case) { declareKind(path, "bytes", c) }

func declareKind(path, kind string, c interface{}) {
	raw, _ := json.Marshal(c)
	b, _ := json.Marshal(evid.ReplayFile{Property: "C11", Kind: kind, Case: raw,
		Note: "the worker process died (fatal out-of-memory under the address-space limit, or another runtime fatal error) while judging this case"})
	_ = os.WriteFile(path, b, 0o644)
}

type runner struct {
	rec *evid.Recorder
	k   *evid.Kind[Case]
	cur string
}

func (r *runner) check(rt *rapid.T, c Case, classes []string) {
	risky := isRisky(&c)
	if risky {
		declare(r.cur, &c)
	}
	r.k.CheckLazy(rt, c, func() (bool, []string) {
		cl := append([]string{}, classes...)
		o := last
		if o.tree {
			cl = append(cl, "outcome:tree")
			if o.reenc != "" {
				cl = append(cl, "reencode:"+o.reenc)
			}
		} else {
			cl = append(cl, "outcome:error")
		}
		if c.Op != "" || c.BaseTopics != nil {
			if o.reached {
				cl = append(cl, "mutation-reached")
			} else {
				cl = append(cl, "mutation-not-reached")
			}
		}
		if o.inTail {
			cl = append(cl, "trunc:inside-tail")
		}
		if o.pair {
			cl = append(cl, "memory:metamorphic-pair")
		}
		if o.anchored {
			cl = append(cl, "memory:anchored")
		}
		return o.reached || o.inTail, cl
	})
	if risky {
		_ = os.Truncate(r.cur, 0) // truncate, never remove: the recorder holds this file open
	}
}

var insertions = []struct{ name, hex string }{
	{"32x00", strings.Repeat("00", 32)},
	{"32xff", strings.Repeat("ff", 32)},
	{"1B", "01"},
	{"31B", strings.Repeat("00", 30) + "20"},
	{"33B", strings.Repeat("00", 31) + "2000"},
}

// sweep judges the base and every mutant of it: each bookkeeping word x each boundary value,
// truncation and insertion at every 32-byte boundary and at the drawn random offsets.
func (r *runner) sweep(rt *rapid.T, b *base) {
	cl := append([]string{"entry:" + b.c.Entry}, b.shape...)
	with := func(extra ...string) []string { return append(append([]string{}, cl...), extra...) }
	r.check(rt, b.c, with("op:none"))
	n := len(b.raw)
	for _, w := range b.words {
		for _, bv := range boundaryValues(n, w.Val) {
			if bv.v.IsInt64() && bv.v.Int64() == int64(w.Val) {
				continue
			}
			c := b.c
			c.Op, c.Pos, c.Word, c.WordKind = "word", w.Pos, word32(bv.v), w.Kind.String()
			r.check(rt, c, with("op:word", "word:"+w.Kind.String(), "value:"+bv.name))
		}
	}
	off := 0
	if b.c.Entry == "call" || b.c.Entry == "error" {
		off = 4
	}
	var cuts []int
	for p := off; p < n; p += 32 {
		cuts = append(cuts, p)
	}
	if n > 0 {
		for i := 0; i < 3; i++ {
			cuts = append(cuts, rapid.IntRange(0, n-1).Draw(rt, fmt.Sprintf("cut%d", i)))
		}
	}
	insIdx := rapid.IntRange(0, len(insertions)-1).Draw(rt, "ins")
	for i, p := range cuts {
		c := b.c
		c.Op, c.Pos = "trunc", p
		lbl := "trunc:32B-boundary"
		if (p-off)%32 != 0 {
			lbl = "trunc:unaligned"
		}
		r.check(rt, c, with("op:trunc", lbl))
		ins := insertions[(insIdx+i)%len(insertions)]
		c = b.c
		c.Op, c.Pos, c.Ins = "insert", p, ins.hex
		r.check(rt, c, with("op:insert", "insert:"+ins.name))
	}
	// extension at the end
	for _, ins := range insertions {
		c := b.c
		c.Op, c.Pos, c.Ins = "insert", n, ins.hex
		r.check(rt, c, with("op:insert", "insert:at-end", "insert:"+ins.name))
	}
}

// topicMutants judges event cases whose topic list was mutated: length 0..6, widths 0/31/32/33,
// a foreign signature topic; optionally combined with one word mutation of the data.
func (r *runner) topicMutants(rt *rapid.T, b *base) {
	cl := append([]string{"entry:event", "op:topics"}, b.shape...)
	nm := rapid.IntRange(3, 8).Draw(rt, "ntopicmut")
	for m := 0; m < nm; m++ {
		lbl := fmt.Sprintf("tm%d", m)
		topics := make([][]byte, len(b.topics))
		for i := range topics {
			topics[i] = append([]byte{}, b.topics[i]...)
		}
		var tl []string
		switch rapid.IntRange(0, 4).Draw(rt, lbl+".kind") {
		case 0, 1: // list length 0..6
			n := rapid.IntRange(0, 6).Draw(rt, lbl+".len")
			for len(topics) < n {
				topics = append(topics, gen.Bytes(rt, fmt.Sprintf("%s.extra%d", lbl, len(topics)), 32))
			}
			topics = topics[:n]
			tl = append(tl, fmt.Sprintf("topics:len=%d", n))
			if n < len(b.topics) {
				tl = append(tl, "topics:too-few")
			}
		case 2: // foreign signature topic
			if len(topics) > 0 {
				topics[0] = gen.Bytes(rt, lbl+".foreign", 32)
				tl = append(tl, "topics:foreign-topic0")
			}
		default:
		}
		// widths
		if len(topics) > 0 && rapid.IntRange(0, 3).Draw(rt, lbl+".rewidth") != 0 {
			i := rapid.IntRange(0, len(topics)-1).Draw(rt, lbl+".wi")
			w := rapid.SampledFrom([]int{0, 31, 33}).Draw(rt, lbl+".w")
			switch {
			case w <= len(topics[i]):
				topics[i] = topics[i][:w]
			default:
				topics[i] = append(topics[i], 0x01)
			}
			tl = append(tl, fmt.Sprintf("topics:width=%d", w))
		}
		if len(tl) == 0 {
			tl = append(tl, "topics:unchanged")
		}
		c := b.c
		c.Topics = make([]string, 0, len(topics))
		for _, t := range topics {
			c.Topics = append(c.Topics, hex.EncodeToString(t))
		}
		if len(b.words) > 0 && rapid.Bool().Draw(rt, lbl+".alsoword") {
			w := b.words[rapid.IntRange(0, len(b.words)-1).Draw(rt, lbl+".word")]
			bvs := boundaryValues(len(b.raw), w.Val)
			bv := bvs[rapid.IntRange(0, len(bvs)-1).Draw(rt, lbl+".bv")]
			c.Op, c.Pos, c.Word, c.WordKind = "word", w.Pos, word32(bv.v), w.Kind.String()
			tl = append(tl, "topics+word")
		}
		c.BaseTopics = append([]string{}, b.c.Topics...)
		if c.BaseTopics == nil {
			c.BaseTopics = []string{}
		}
		r.check(rt, c, append(append([]string{}, cl...), tl...))
	}
}

func init() {
	// the library may log through logrus; logging is not under test
	logrus.SetLevel(logrus.PanicLevel)
}

var probeNegFixed = Case{Entry: "data", Decl: "(fixed128x18 f)", Valid: true,
	Base: "ffffffffffffffffffffffffffffffffffffffffffffffffeb2f0b8f1b9c0000"} // -1.5 * 10^18

const probeNegFixedKey = "fixed-negative-abs"
const probeNegFixedWhat = "a negative fixed<M>x<N> value decodes, re-encodes (encodeFixed takes the absolute value; pinned by TestEncodeUnsignedFloatNegativeOk) and decodes again to a different tree, e.g. fixed128x18 -1.5 comes back as +1.5"

func setup(rec *evid.Recorder, k *evid.Kind[Case]) {
	excludedNegFixed = nil
	negFixedOpen = false
	if k.Probe(probeNegFixedKey, probeNegFixed, probeNegFixedWhat) {
		negFixedOpen = true
		excludedNegFixed = func() { rec.Excluded(probeNegFixedKey) }
	}
}

func TestCheck(t *testing.T) {
	rec := evid.Start("C11", rule)
	defer rec.Finish()
	rec.Assume("inputs: valid encodings from the independent reference encoder ref/abiref (which reports the position of every offset and length word), mutated; the verdict uses invariants of the property itself (totality, serialisability, re-encode round trip) and relative memory relations")
	rec.Assume("memory is the runtime.MemStats.TotalAlloc delta around the library call on the judging goroutine; judged relatively (metamorphic pair within 1 MiB; mutant <= 64 x valid + 1 MiB), never against an absolute budget")
	rec.Assume("not asserted: absolute memory numbers; polynomial growth through aliased offsets; which malformed inputs are rejected (lenient acceptance is allowed); the re-encode clause for event trees in which an indexed value was surfaced as a raw topic (the tree is then not typed by the parameter list)")
	rec.Assume("quantifier: array element types of zero encoded size and zero-length fixed arrays are excluded")
	k := evid.NewKind(rec, "bytes", judge)
	kShared := evid.NewKind(rec, "shared", judgeShared)
	kRet := evid.NewKind(rec, "retention", judgeRetention)
	setup(rec, k)
	r := &runner{rec: rec, k: k, cur: currentFile(rec)}
	_ = os.Truncate(r.cur, 0) // truncate, never remove: the recorder holds this file open
	rec.Corpus(t)             // corpus inputs are chosen below the fatal range (a 2^24 count: 128 MiB on a tree without the fix)

	for _, entry := range []string{"data", "call", "event", "error"} {
		entry := entry
		q, th := 300, 2000
		if entry == "data" {
			q, th = 500, 4000
		}
		rec.Rapid(t, "sweep-"+entry, rec.N(q, th), func(rt *rapid.T) {
			b := genBase(rt, entry)
			r.sweep(rt, b)
			if entry == "event" {
				r.topicMutants(rt, b)
			}
		})
	}

	// sequence kinds (no per-call memory measurement here; a fatal runtime error is attributed through the declared-case file)
	rec.Assume("retention: live heap = runtime.MemStats.HeapAlloc after two forced collections; judged relatively: growth over N dropped decodes <= 16 x (measured footprint of one held definition + tree) + 512 KiB")
	rec.Rapid(t, "shared", rec.N(40, 100), func(rt *rapid.T) {
		c, nt, cl := genSharedCase(rt)
		declareKind(r.cur, "shared", &c)
		kShared.Check(rt, c, nt, cl...)
		_ = os.Truncate(r.cur, 0) // truncate, never remove: the recorder holds this file open
	})
	rec.Rapid(t, "retention", rec.N(16, 60), func(rt *rapid.T) {
		c, nt, cl := genRetentionCase(rt)
		kRet.CheckLazy(rt, c, func() (bool, []string) {
			if lastRetention.unit > 0 {
				cl = append(cl, fmt.Sprintf("retention:unit<=%dKiB", 1<<bitsLen(lastRetention.unit>>10)))
			}
			return nt, cl
		})
	})
}

func bitsLen(x int64) uint {
	n := uint(0)
	for x > 0 {
		x >>= 1
		n++
	}
	return n
}

func TestReplay(t *testing.T) {
	rec := evid.Start("C11", rule)
	k := evid.NewKind(rec, "bytes", judge)
	evid.NewKind(rec, "shared", judgeShared)
	evid.NewKind(rec, "retention", judgeRetention)
	setup(rec, k)
	cur := currentFile(rec)
	if p := os.Getenv("VERIF_REPLAY"); p != "" {
		if b, err := os.ReadFile(p); err == nil {
			_ = os.WriteFile(cur, b, 0o644)
		}
	}
	rec.Replay(t)
	_ = os.Truncate(cur, 0) // truncate, never remove: the recorder holds this file open
}

// ---- native fuzzing over (type bytes, entry selector, data bytes)

// typeFromBytes builds a parameter list deterministically from a byte string (a choice
// sequence): structure-aware, so that coverage-guided mutation of the bytes changes the type locally.
type choice struct {
	b []byte
	i int
}

func (c *choice) next(n int) int {
	if c.i >= len(c.b) {
		return 0
	}
	v := int(c.b[c.i]) % n
	c.i++
	return v
}

func (c *choice) elem() *abiref.Type {
	switch c.next(12) {
	case 0:
		return abiref.UintT(256)
	case 1:
		return abiref.UintT(8 * (1 + c.next(32)))
	case 2:
		return abiref.IntT(8 * (1 + c.next(32)))
	case 3:
		return abiref.AddressT()
	case 4:
		return abiref.BoolT()
	case 5:
		return abiref.FixedBytesT(1 + c.next(32))
	case 6, 7:
		return abiref.BytesT()
	case 8, 9:
		return abiref.StringT()
	case 10:
		return abiref.FunctionT()
	default:
		if c.next(2) == 0 {
			return abiref.UfixedT(8*(1+c.next(32)), 1+c.next(80))
		}
		return abiref.FixedT(8*(1+c.next(32)), 1+c.next(80))
	}
}

func (c *choice) typ(depth int, budget *int, inArray bool) *abiref.Type {
	*budget--
	if depth <= 0 || *budget <= 0 {
		return c.elem()
	}
	switch c.next(8) {
	case 0, 1, 2:
		return c.elem()
	case 3, 4:
		return abiref.SliceT(c.typ(depth-1, budget, true))
	case 5:
		return abiref.ArrayT(c.typ(depth-1, budget, true), 1+c.next(3))
	default:
		n := c.next(4)
		if inArray {
			n++
		}
		t := &abiref.Type{Kind: abiref.Tuple}
		for i := 0; i < n; i++ {
			t.Members = append(t.Members, abiref.Member{Type: c.typ(depth-1, budget, false)})
		}
		return t
	}
}

func typeFromBytes(b []byte, indexed bool) *abiref.Type {
	c := &choice{b: b}
	budget := 10
	n := 1 + c.next(4)
	t := &abiref.Type{Kind: abiref.Tuple}
	idx := 0
	for i := 0; i < n; i++ {
		m := abiref.Member{Type: c.typ(3, &budget, false)}
		if indexed && idx < 3 && c.next(3) == 0 {
			m.Indexed = true
			idx++
		}
		t.Members = append(t.Members, m)
	}
	return t
}

// fuzzCase maps fuzz arguments to a Case.
func fuzzCase(sel byte, tb, data []byte) (Case, bool) {
	entries := []string{"data", "call", "event", "error"}
	entry := entries[int(sel)&3]
	ty := typeFromBytes(tb, entry == "event")
	if ty.HasZeroSizeArrayElem() {
		return Case{}, false
	}
	c := Case{Entry: entry, Decl: ty.Decl(), Scan: true}
	if entry != "data" {
		c.Name = "f"
	}
	switch entry {
	case "call", "error":
		if sel&4 == 0 {
			// put the right selector in front so that the fuzzer gets past the selector check
			data = append(abiref.Selector(abiref.Signature(c.Name, ty)), data...)
		}
	case "event":
		c.Anonymous = sel&8 != 0
		// the first byte describes the topic list: count 0..6, then one width code per topic
		if len(data) > 0 {
			n := int(data[0]) % 7
			data = data[1:]
			for i := 0; i < n; i++ {
				w := 32
				if len(data) > 0 {
					w = []int{32, 32, 32, 32, 32, 0, 31, 33}[int(data[0])&7]
					data = data[1:]
				}
				var t []byte
				if i == 0 && !c.Anonymous && sel&4 == 0 {
					t = abiref.Topic(abiref.Signature(c.Name, ty))
					if w < 32 {
						t = t[:w]
					} else if w > 32 {
						t = append(t, 0)
					}
				} else {
					if w > len(data) {
						w = len(data)
					}
					t = data[:w]
					data = data[w:]
				}
				c.Topics = append(c.Topics, hex.EncodeToString(t))
			}
		}
	}
	if len(data) > 4096 {
		data = data[:4096]
	}
	c.Base = hex.EncodeToString(data)
	return c, true
}

func fuzzWorkerLimit() {
	// a fuzz worker judges arbitrary inputs: keep a runaway allocation inside the worker
	// (the fuzz engine then records the input as a crasher) instead of exhausting the machine
	if f := flag.Lookup("test.fuzzworker"); f != nil && f.Value.String() == "true" {
		lim := syscall.Rlimit{Cur: 6 << 30, Max: 6 << 30}
		_ = syscall.Setrlimit(syscall.RLIMIT_AS, &lim)
	}
}

func FuzzDecode(f *testing.F) {
	fuzzWorkerLimit()
	h := func(s string) []byte {
		b, err := hex.DecodeString(strings.ReplaceAll(s, " ", ""))
		if err != nil {
			panic(err)
		}
		return b
	}
	w := func(vs ...int64) []byte {
		var out []byte
		for _, v := range vs {
			out = append(out, h(word32(big.NewInt(v)))...)
		}
		return out
	}
	// type bytes: see typeFromBytes. {0,3,0} = (uint256[]), {0,3,3,0} = (uint256[][]), {0,6} = (bytes), {1,8,3,6} = (string,bytes[]) …
	f.Add(byte(0), []byte{0, 3, 0}, w(32, 2, 7, 9))
	f.Add(byte(0), []byte{0, 3, 0}, w(32, 1<<24))
	f.Add(byte(0), []byte{0, 3, 0}, append(w(32), h("00000000000000000000000000000000000000000000000000000000ffffffff")...))
	f.Add(byte(0), []byte{0, 3, 3, 0}, w(32, 2, 64, 128, 1, 5, 1, 6))
	f.Add(byte(0), []byte{0, 6}, append(w(32, 5), h("68656c6c6f000000000000000000000000000000000000000000000000000000")...))
	f.Add(byte(1), []byte{1, 8, 3, 6}, append(w(64, 128, 2), h("6869")...))
	f.Add(byte(3), []byte{0, 8}, append(w(32, 3), h("626164")...))
	f.Add(byte(2), []byte{2, 1, 31, 0, 8, 1, 3}, append([]byte{2, 0, 0}, w(1, 2, 32, 0)...))
	f.Add(byte(10), []byte{1, 6, 1, 3, 0}, append([]byte{1, 6}, w(32, 0)...))
	f.Add(byte(0), []byte{0, 7, 2, 6, 11, 1, 5, 3}, w(32, 64, 1, 2, 3))
	f.Add(byte(0), []byte{0, 5, 7, 1, 6, 2}, w(32, 32, 64, 0, 0))
	f.Add(byte(7), []byte{}, []byte{})
	rec := evid.Start("C11", rule)
	k := evid.NewKind(rec, "bytes", judge)
	setup(rec, k)
	f.Fuzz(func(t *testing.T, sel byte, tb []byte, data []byte) {
		if len(tb) > 64 || len(data) > 4200 {
			return
		}
		c, ok := fuzzCase(sel, tb, data)
		if !ok {
			return
		}
		if vs := judge(c); len(vs) > 0 {
			if vs[0].Clause == "harness" {
				return
			}
			k.Fail(t, c, vs)
		}
	})
}
