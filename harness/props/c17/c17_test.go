// Package c17 decides property C17 (filesystem-wallet discovery is race free,
// notifies each new address exactly once, converges and shuts down) by running
// generated concurrent *programs* against a real wallet on a real directory
// (real inotify events) in a test binary built with -race.
//
// What decides: (i) the race detector (reports with a frame in pkg/fswallet; they
// are picked up in-process from the GORACE log so that the failing program is the
// replay file, and again by the driver from the same log as a safety net),
// (ii) an order-insensitive oracle over the observed history (per-listener
// receive counts against a harness-side sequence counter that witnesses
// "AddListener returned before the file was created"; account lists),
// (iii) 30 s liveness bounds with a goroutine dump.
//
// The Go scheduler and the kernel own the interleaving: a program is not a
// schedule.  Race failures therefore do not shrink; the program and the observed
// history are saved ($VERIF_OUT/history-<shard>*.json).
package c17

import (
	"bytes"
	"context"
	"crypto/aes"
	"crypto/cipher"
	"encoding/hex"
	"encoding/json"
	"fmt"
	"math/big"
	"os"
	"path/filepath"
	"runtime"
	"runtime/pprof"
	"sort"
	"strconv"
	"strings"
	"sync"
	"sync/atomic"
	"testing"
	"time"

	"github.com/hyperledger/firefly-signer/pkg/eip712"
	"github.com/hyperledger/firefly-signer/pkg/ethsigner"
	"github.com/hyperledger/firefly-signer/pkg/ethtypes"
	"github.com/hyperledger/firefly-signer/pkg/fswallet"
	"github.com/hyperledger/firefly-signer/pkg/keystorev3"
	"github.com/sirupsen/logrus"
	"golang.org/x/crypto/scrypt"
	"pgregory.net/rapid"

	"verifharness/evid"
	"verifharness/ref/secp"
)

const rule = "program with >= 2 goroutines in which listener registration or signing can overlap a discovery pass: " +
	"at least one AddListener op that comes after a file creation (a file existing before Initialize, or an earlier create op of the same goroutine) " +
	"while another goroutine creates files or calls Refresh, or >= 2 goroutines that sign while the metadata format is still 'auto'; distinct by hash of the program"

const (
	raceFilter   = "pkg/fswallet"
	liveness     = 30 * time.Second
	poolSize     = 64
	walletSecret = "verif-c17 password"
)

// note counts a dynamic class label in the evidence (set by TestCheck).
var note = func(label string) {}

// baseTmp is the per-test temporary directory (t.TempDir()); every case makes its
// own sub-directory below it and removes it again.
var baseTmp string

// ---------------------------------------------------------------------------------
// key pool: immutable, built once per process from fixed seeds (no randomness)

type poolKey struct {
	addr    [20]byte
	hex40   string // lower-case, no prefix
	keyJSON []byte // keystore V3, scrypt N=2 r=1 p=1
}

var (
	pool     []poolKey
	poolOnce sync.Once
)

func pad32(i *big.Int) []byte {
	out := make([]byte, 32)
	b := i.Bytes()
	copy(out[32-len(b):], b)
	return out
}

// keystoreV3 is the harness's own minimal Web3-secret-storage writer.
func keystoreV3(i int, d *big.Int, addr [20]byte) []byte {
	salt := secp.Keccak256([]byte(fmt.Sprintf("verif-c17-salt-%d", i)))
	iv := secp.Keccak256([]byte(fmt.Sprintf("verif-c17-iv-%d", i)))[:16]
	dk, err := scrypt.Key([]byte(walletSecret), salt, 2, 1, 1, 32)
	if err != nil {
		panic(err)
	}
	block, err := aes.NewCipher(dk[:16])
	if err != nil {
		panic(err)
	}
	ct := make([]byte, 32)
	cipher.NewCTR(block, iv).XORKeyStream(ct, pad32(d))
	mac := secp.Keccak256(dk[16:32], ct)
	u := secp.Keccak256([]byte(fmt.Sprintf("verif-c17-id-%d", i)))[:16]
	u[6] = (u[6] & 0x0f) | 0x40
	u[8] = (u[8] & 0x3f) | 0x80
	id := fmt.Sprintf("%x-%x-%x-%x-%x", u[0:4], u[4:6], u[6:8], u[8:10], u[10:16])
	doc := map[string]interface{}{
		"id":      id,
		"version": 3,
		"address": hex.EncodeToString(addr[:]),
		"crypto": map[string]interface{}{
			"cipher":       "aes-128-ctr",
			"ciphertext":   hex.EncodeToString(ct),
			"cipherparams": map[string]interface{}{"iv": hex.EncodeToString(iv)},
			"kdf":          "scrypt",
			"kdfparams":    map[string]interface{}{"dklen": 32, "n": 2, "r": 1, "p": 1, "salt": hex.EncodeToString(salt)},
			"mac":          hex.EncodeToString(mac),
		},
	}
	b, _ := json.Marshal(doc)
	return b
}

func keys() []poolKey {
	poolOnce.Do(func() {
		nm1 := new(big.Int).Sub(secp.N, big.NewInt(1))
		for i := 0; i < poolSize; i++ {
			d := new(big.Int).SetBytes(secp.Keccak256([]byte(fmt.Sprintf("verif-c17-key-%d", i))))
			d.Mod(d, nm1)
			d.Add(d, big.NewInt(1))
			a := secp.AddressOfKey(d)
			pool = append(pool, poolKey{addr: a, hex40: hex.EncodeToString(a[:]), keyJSON: keystoreV3(i, d, a)})
		}
	})
	return pool
}

// ---------------------------------------------------------------------------------
// directory layouts / configurations

type layout struct {
	Name   string
	Ext    string // primary extension ("" when a regular expression is used)
	Regex  string
	Format string // metadata.format handed to the wallet
	Meta   string // "", "toml", "json", "yaml": what the primary file contains
}

var layouts = []layout{
	{Name: "keyfile/auto", Ext: ".key.json", Format: "auto"},
	{Name: "keyfile/explicit", Ext: ".key.json", Format: "none"},
	{Name: "keyfile-regex/auto", Regex: `^((0x)?[0-9a-f]{40})\.key\.json$`, Format: "auto"},
	{Name: "toml/auto", Ext: ".toml", Format: "auto", Meta: "toml"},
	{Name: "toml/explicit", Ext: ".toml", Format: "toml", Meta: "toml"},
	{Name: "json/auto", Ext: ".json", Format: "auto", Meta: "json"},
	{Name: "yaml/auto", Ext: ".yaml", Format: "auto", Meta: "yaml"},
	{Name: "yaml/explicit", Ext: ".yaml", Format: "yaml", Meta: "yaml"},
}

func layoutByName(n string) (layout, bool) {
	for _, l := range layouts {
		if l.Name == n {
			return l, true
		}
	}
	return layout{}, false
}

func (l layout) fileName(k poolKey, alias bool) string {
	ext := l.Ext
	if l.Regex != "" {
		ext = ".key.json"
	}
	if alias {
		return "0x" + k.hex40 + ext
	}
	return k.hex40 + ext
}

type caseDirs struct{ root, wallet, stage, keys, pwd, defPwd string }

func (l layout) primaryContent(d caseDirs, idx int, k poolKey) []byte {
	if l.Meta == "" {
		return k.keyJSON
	}
	keyPath := filepath.Join(d.keys, k.hex40+".json")
	pwdPath := ""
	if idx%2 == 0 {
		pwdPath = filepath.Join(d.pwd, k.hex40+".pwd")
	}
	switch l.Meta {
	case "toml":
		s := fmt.Sprintf("[metadata]\ndescription = \"key %d\"\n\n[signing]\ntype = \"file-based-signer\"\nkey-file = %q\n", idx, keyPath)
		if pwdPath != "" {
			s += fmt.Sprintf("password-file = %q\n", pwdPath)
		}
		return []byte(s)
	case "json":
		m := map[string]interface{}{"key-file": keyPath}
		if pwdPath != "" {
			m["password-file"] = pwdPath
		}
		b, _ := json.Marshal(map[string]interface{}{"signing": m})
		return b
	default: // yaml
		s := fmt.Sprintf("signing:\n  key-file: %q\n", keyPath)
		if pwdPath != "" {
			s += fmt.Sprintf("  password-file: %q\n", pwdPath)
		}
		return []byte(s)
	}
}

// ---------------------------------------------------------------------------------
// the case: a program

// Op kinds: create (A = key index, M = the way the file appears, see createFile: 0 moved in
// from a staging directory, 1 written in place, 2 temporary name then renamed, 3 created empty
// then filled, 4 hard-linked in, 5 written then replaced, 6 written in two chunks, 7 moved up
// from a sub-directory),
// alias (A = key index created earlier by the same goroutine; a second file name
// "0x…" for the same address), refresh, accounts, listen (A = channel capacity),
// sign / signtyped / walletfile (A = key index), close.  Y = runtime.Gosched()
// calls before the op.
type Op struct {
	K string `json:"k"`
	A int    `json:"a,omitempty"`
	M int    `json:"m,omitempty"`
	Y int    `json:"y,omitempty"`
}

type ProgramCase struct {
	Procs            int    `json:"gomaxprocs"`
	Listener         bool   `json:"listener"`
	Layout           string `json:"layout"`
	Pre              int    `json:"pre"`                // key files 0..Pre-1 exist before Initialize
	InitialListeners int    `json:"initial_listeners"`  // passed to NewFilesystemWallet
	Sentinel         int    `json:"sentinel,omitempty"` // how the last file (discovered through events alone) appears: see createFile
	Threads          [][]Op `json:"threads"`
}

// ---- history (saved, not judged by anything but the oracle below)

type opRecord struct {
	K   string `json:"k"`
	A   int    `json:"a,omitempty"`
	Seq int64  `json:"seq,omitempty"` // create/alias: counter value taken before the file appears; listen: after AddListener returned
	N   int    `json:"n,omitempty"`   // accounts: length
	Err string `json:"err,omitempty"`
	L   int    `json:"listener,omitempty"`
}

type listenerRecord struct {
	ID       int      `json:"id"`
	SeqAfter int64    `json:"registered_seq"` // 0 = before Initialize
	Got      []string `json:"received"`
}

type history struct {
	Program   ProgramCase      `json:"program"`
	Threads   [][]opRecord     `json:"threads,omitempty"`
	Listeners []listenerRecord `json:"listeners,omitempty"`
	Final     []string         `json:"final_accounts,omitempty"`
	Notes     []string         `json:"notes,omitempty"`
	Race      string           `json:"race_report,omitempty"`
	Verdict   []evid.Violation `json:"violations,omitempty"`
}

func outDir() string {
	if d := os.Getenv("VERIF_OUT"); d != "" {
		return d
	}
	return ""
}

func shard() string {
	if s := os.Getenv("VERIF_SHARD"); s != "" {
		return s
	}
	return "0"
}

func writeHistory(name string, h *history) {
	d := outDir()
	if d == "" {
		return
	}
	b, err := json.Marshal(h)
	if err != nil {
		return
	}
	_ = os.WriteFile(filepath.Join(d, name), b, 0o644)
}

// ---- race log (GORACE log_path=<p> makes the runtime write reports to <p>.<pid>)

func raceLogPath() string {
	for _, f := range strings.Fields(os.Getenv("GORACE")) {
		if strings.HasPrefix(f, "log_path=") {
			p := strings.TrimPrefix(f, "log_path=")
			if p == "stderr" || p == "stdout" || p == "" {
				return ""
			}
			return p + "." + strconv.Itoa(os.Getpid())
		}
	}
	return ""
}

func raceMark() int64 {
	p := raceLogPath()
	if p == "" {
		return 0
	}
	st, err := os.Stat(p)
	if err != nil {
		return 0
	}
	return st.Size()
}

// raceSince returns the reports written after mark that have a frame in the filtered package.
func raceSince(mark int64) []string {
	p := raceLogPath()
	if p == "" {
		return nil
	}
	b, err := os.ReadFile(p)
	if err != nil || int64(len(b)) <= mark {
		return nil
	}
	var out []string
	for _, block := range strings.Split(string(b[mark:]), "==================") {
		if strings.Contains(block, "DATA RACE") && strings.Contains(block, raceFilter) {
			out = append(out, strings.TrimSpace(block))
		}
	}
	return out
}

var raceSaved atomic.Int32

// ---- goroutine inspection

// goroutinesIn counts goroutines that have a frame whose function name contains needle.
func goroutinesIn(needle string) int {
	var buf bytes.Buffer
	_ = pprof.Lookup("goroutine").WriteTo(&buf, 1)
	n := 0
	for _, blk := range strings.Split(buf.String(), "\n\n") {
		if !strings.Contains(blk, needle) {
			continue
		}
		// header: "<count> @ 0x… 0x…"
		c := 1
		if i := strings.Index(blk, " @"); i > 0 {
			head := blk[:i] // "<count>", possibly preceded by the profile's title line
			if j := strings.LastIndexByte(head, '\n'); j >= 0 {
				head = head[j+1:]
			}
			if v, err := strconv.Atoi(strings.TrimSpace(head)); err == nil {
				c = v
			}
		}
		n += c
	}
	return n
}

func dumpGoroutines(tag string) string {
	buf := make([]byte, 1<<20)
	for {
		n := runtime.Stack(buf, true)
		if n < len(buf) {
			buf = buf[:n]
			break
		}
		buf = make([]byte, 2*len(buf))
	}
	if d := outDir(); d != "" {
		p := filepath.Join(d, fmt.Sprintf("goroutines-%s-%s.txt", shard(), tag))
		_ = os.WriteFile(p, buf, 0o644)
		return p
	}
	return ""
}

func inotifyFDs() int {
	ents, err := os.ReadDir("/proc/self/fd")
	if err != nil {
		return -1
	}
	n := 0
	for _, e := range ents {
		if t, err := os.Readlink("/proc/self/fd/" + e.Name()); err == nil && strings.Contains(t, "inotify") {
			n++
		}
	}
	return n
}

// waitFor polls cond (cheap, idempotent) until it holds or the liveness bound expires.
func waitFor(cond func() bool) bool {
	deadline := time.Now().Add(liveness)
	pause := 50 * time.Microsecond
	for {
		if cond() {
			return true
		}
		if time.Now().After(deadline) {
			return cond()
		}
		time.Sleep(pause)
		if pause < 5*time.Millisecond {
			pause *= 2
		}
	}
}

// ---- listeners

type listener struct {
	id       int
	ch       chan ethtypes.Address0xHex
	seqAfter int64
	got      []string // written by the drainer only; read after the drainer has stopped
	stop     chan struct{}
	done     chan struct{}
}

func newListener(id, capacity int) *listener {
	l := &listener{id: id, ch: make(chan ethtypes.Address0xHex, capacity), stop: make(chan struct{}), done: make(chan struct{})}
	go func() {
		defer close(l.done)
		for {
			select {
			case a := <-l.ch:
				l.got = append(l.got, hex.EncodeToString(a[:]))
			case <-l.stop:
				for {
					select {
					case a := <-l.ch:
						l.got = append(l.got, hex.EncodeToString(a[:]))
					default:
						return
					}
				}
			}
		}
	}()
	return l
}

// ---- the judge

type threadState struct {
	recs      []opRecord
	vs        []evid.Violation
	listeners []*listener
	progress  atomic.Int64
	finished  atomic.Bool
}

func judgeProgram(c ProgramCase) (vs []evid.Violation) {
	ks := keys()
	lay, ok := layoutByName(c.Layout)
	if !ok {
		return []evid.Violation{evid.V("harness", "unknown layout %q", c.Layout)}
	}
	if c.Pre < 0 || c.Pre > poolSize-2 || len(c.Threads) == 0 {
		return []evid.Violation{evid.V("harness", "bad case shape")}
	}
	hist := &history{Program: c}
	histName := fmt.Sprintf("history-%s.json", shard())
	writeHistory(histName, hist) // before anything runs: a crash or a hang leaves the program behind
	mark := raceMark()
	defer func() {
		if reps := raceSince(mark); len(reps) > 0 {
			hist.Race = reps[0]
			vs = append(vs, evid.V("no-data-race", "race detector report with a frame in %s\n%d report(s) during this program:\n%s", raceFilter, len(reps), reps[0]))
			if n := raceSaved.Add(1); n <= 3 {
				hist.Verdict = vs
				writeHistory(fmt.Sprintf("history-%s-race%d.json", shard(), n), hist)
			}
		}
		hist.Verdict = vs
		writeHistory(histName, hist)
	}()

	procs := c.Procs
	if procs < 1 {
		procs = 1
	}
	prev := runtime.GOMAXPROCS(procs)
	defer runtime.GOMAXPROCS(prev)

	// ---- directories
	parent := baseTmp
	root, err := os.MkdirTemp(parent, "c17-")
	if err != nil {
		return []evid.Violation{evid.V("harness", "mkdir: %v", err)}
	}
	defer os.RemoveAll(root)
	d := caseDirs{root: root, wallet: filepath.Join(root, "wallet"), stage: filepath.Join(root, "stage"), keys: filepath.Join(root, "keys"), pwd: filepath.Join(root, "pwd"), defPwd: filepath.Join(root, "default.pwd")}
	for _, p := range []string{d.wallet, d.stage, d.keys, d.pwd} {
		if err := os.Mkdir(p, 0o755); err != nil {
			return []evid.Violation{evid.V("harness", "mkdir: %v", err)}
		}
	}
	_ = os.WriteFile(d.defPwd, []byte(walletSecret), 0o600) // used verbatim by the wallet (only per-key password files are trimmed)

	// which keys does the program use?
	used := map[int]bool{}
	for i := 0; i < c.Pre; i++ {
		used[i] = true
	}
	sentinel := poolSize - 1
	for _, th := range c.Threads {
		for _, op := range th {
			if op.K == "create" {
				if op.A < c.Pre || op.A >= sentinel || used[op.A] {
					return []evid.Violation{evid.V("harness", "create op with key index %d: out of range or reused", op.A)}
				}
				used[op.A] = true
			}
		}
	}
	used[sentinel] = true
	planned := map[string]bool{}
	for i := range used {
		planned[ks[i].hex40] = true
		if lay.Meta != "" {
			_ = os.WriteFile(filepath.Join(d.keys, ks[i].hex40+".json"), ks[i].keyJSON, 0o600)
		}
		if i%2 == 0 {
			_ = os.WriteFile(filepath.Join(d.pwd, ks[i].hex40+".pwd"), []byte(walletSecret+"\n"), 0o600)
		}
	}
	var stageN atomic.Int64
	// createFile makes the primary file of key idx appear under its matching name in one of
	// the ways a file can get there (the wallet has to notice it whichever way it came):
	//   0 written in a staging directory next to the wallet directory, then renamed (moved) in
	//   1 written in place under its final name
	//   2 written under a temporary, non-matching name inside the wallet directory, then renamed
	//   3 created empty under its final name, filled by a second open/write
	//   4 written in the staging directory, then hard-linked in
	//   5 written in place, then replaced by a rename over it (same content)
	//   6 written in place in two chunks
	//   7 written in a sub-directory of the wallet directory, then moved up
	// It returns once the complete file is in place.
	createFile := func(idx int, alias bool, mode int) error {
		name := lay.fileName(ks[idx], alias)
		content := lay.primaryContent(d, idx, ks[idx])
		final := filepath.Join(d.wallet, name)
		staged := func(dir, prefix string) (string, error) {
			tmp := filepath.Join(dir, fmt.Sprintf("%s%d", prefix, stageN.Add(1)))
			return tmp, os.WriteFile(tmp, content, 0o600)
		}
		switch mode {
		case 1:
			return os.WriteFile(final, content, 0o600)
		case 2:
			tmp, err := staged(d.wallet, ".incoming-")
			if err != nil {
				return err
			}
			return os.Rename(tmp, final)
		case 3, 6:
			f, err := os.OpenFile(final, os.O_CREATE|os.O_WRONLY|os.O_TRUNC, 0o600)
			if err != nil {
				return err
			}
			cut := 0
			if mode == 6 {
				cut = len(content) / 2
				if _, err := f.Write(content[:cut]); err != nil {
					f.Close()
					return err
				}
			}
			if mode == 3 {
				if err := f.Close(); err != nil {
					return err
				}
				runtime.Gosched()
				if f, err = os.OpenFile(final, os.O_WRONLY, 0o600); err != nil {
					return err
				}
			} else {
				runtime.Gosched()
			}
			if _, err := f.Write(content[cut:]); err != nil {
				f.Close()
				return err
			}
			return f.Close()
		case 4:
			tmp, err := staged(d.stage, "l")
			if err != nil {
				return err
			}
			err = os.Link(tmp, final)
			if err != nil && os.IsExist(err) {
				return os.Rename(tmp, final) // a second delivery of the same name (alias op repeated): replace it
			}
			return err
		case 5:
			if err := os.WriteFile(final, content, 0o600); err != nil {
				return err
			}
			tmp, err := staged(d.stage, "r")
			if err != nil {
				return err
			}
			return os.Rename(tmp, final)
		case 7:
			sub := filepath.Join(d.wallet, "incoming")
			if err := os.MkdirAll(sub, 0o755); err != nil {
				return err
			}
			tmp, err := staged(sub, "m")
			if err != nil {
				return err
			}
			return os.Rename(tmp, final)
		default:
			tmp, err := staged(d.stage, "s")
			if err != nil {
				return err
			}
			return os.Rename(tmp, final)
		}
	}
	for i := 0; i < c.Pre; i++ {
		if err := createFile(i, false, 0); err != nil {
			return []evid.Violation{evid.V("harness", "pre-create: %v", err)}
		}
	}

	// ---- the wallet
	conf := &fswallet.Config{
		Path:                d.wallet,
		DefaultPasswordFile: d.defPwd,
		SignerCacheSize:     "250",
		SignerCacheTTL:      "24h",
		DisableListener:     !c.Listener,
		Filenames: fswallet.FilenamesConfig{
			PrimaryExt:        lay.Ext,
			PrimaryMatchRegex: lay.Regex,
			PasswordExt:       ".pwd",
			PasswordPath:      d.pwd,
			PasswordTrimSpace: true,
		},
		Metadata: fswallet.MetadataConfig{Format: lay.Format},
	}
	if lay.Meta != "" {
		conf.Metadata.KeyFileProperty = `{{ index .signing "key-file" }}`
		conf.Metadata.PasswordFileProperty = `{{ index .signing "password-file" }}`
	}
	ctx := context.Background()
	baseDispatch := goroutinesIn("fswallet.(*fsWallet).notifyNewFiles")
	baseInotify := inotifyFDs()

	var all []*listener
	var initial []chan<- ethtypes.Address0xHex
	for i := 0; i < c.InitialListeners; i++ {
		l := newListener(len(all), 1+i)
		all = append(all, l)
		initial = append(initial, l.ch)
	}
	stopListeners := func() {
		for _, l := range all {
			close(l.stop)
		}
		for _, l := range all {
			<-l.done
		}
	}
	w, err := fswallet.NewFilesystemWallet(ctx, conf, initial...)
	if err != nil {
		stopListeners()
		return []evid.Violation{evid.V("harness", "NewFilesystemWallet: %v", err)}
	}
	if err := w.Initialize(ctx); err != nil {
		stopListeners()
		_ = w.Close()
		// inotify instance limits etc. are infrastructure, not the property
		hist.Notes = append(hist.Notes, "Initialize failed: "+err.Error())
		return []evid.Violation{evid.V("harness", "Initialize: %v", err)}
	}

	// ---- run the threads
	var seq atomic.Int64
	closeCalled := atomic.Bool{}
	nextListenerID := atomic.Int64{}
	nextListenerID.Store(int64(len(all)))
	threads := make([]*threadState, len(c.Threads))
	start := make(chan struct{})
	var wg sync.WaitGroup
	for ti := range c.Threads {
		ts := &threadState{}
		threads[ti] = ts
		wg.Add(1)
		go func(ti int, ops []Op, ts *threadState) {
			defer wg.Done()
			defer ts.finished.Store(true)
			defer func() {
				if p := recover(); p != nil {
					ts.vs = append(ts.vs, evid.V("no-panic", "a wallet operation panicked\ngoroutine %d: %v\n%s", ti, p, debugStack()))
				}
			}()
			<-start
			mine := map[int]bool{}       // keys whose file this goroutine created (completely)
			sure := map[int]bool{}       // … and then saw a Refresh return: the wallet must know them
			for i := 0; i < c.Pre; i++ { // discovered by Initialize
				sure[i] = true
			}
			for _, op := range ops {
				for y := 0; y < op.Y; y++ {
					runtime.Gosched()
				}
				rec := opRecord{K: op.K, A: op.A}
				switch op.K {
				case "create":
					rec.Seq = seq.Add(1)
					if err := createFile(op.A, false, op.M); err != nil {
						ts.vs = append(ts.vs, evid.V("harness", "create file: %v", err))
					} else {
						mine[op.A] = true
					}
				case "alias":
					if !mine[op.A] {
						rec.Err = "skipped"
						break
					}
					rec.Seq = seq.Add(1)
					if err := createFile(op.A, true, op.M); err != nil {
						ts.vs = append(ts.vs, evid.V("harness", "create alias: %v", err))
					}
				case "refresh":
					if err := w.Refresh(ctx); err != nil {
						rec.Err = err.Error()
						ts.vs = append(ts.vs, evid.V("refresh-ok", "Refresh of an existing directory failed: %v", err))
					} else {
						for k := range mine {
							sure[k] = true
						}
					}
				case "accounts":
					accs, err := w.GetAccounts(ctx)
					rec.N = len(accs)
					if err != nil {
						rec.Err = err.Error()
					}
					seen := map[string]bool{}
					for _, a := range accs {
						if a == nil {
							ts.vs = append(ts.vs, evid.V("accounts-known", "GetAccounts returned a nil entry"))
							continue
						}
						h := hex.EncodeToString(a[:])
						if seen[h] {
							ts.vs = append(ts.vs, evid.V("accounts-no-duplicates", "GetAccounts lists an address twice\n%s (%d entries)", h, len(accs)))
						}
						seen[h] = true
						if !planned[h] {
							ts.vs = append(ts.vs, evid.V("accounts-known", "GetAccounts lists an address for which no file was ever created\n%s", h))
						}
					}
					for k := range sure {
						if !seen[ks[k].hex40] {
							ts.vs = append(ts.vs, evid.V("accounts-converge", "GetAccounts misses an address although its file was complete before a Refresh that returned earlier in the same goroutine\n%s", ks[k].hex40))
						}
					}
				case "listen":
					capacity := op.A
					if capacity < 0 {
						capacity = 0
					}
					l := newListener(int(nextListenerID.Add(1))-1, capacity)
					w.AddListener(l.ch)
					l.seqAfter = seq.Add(1)
					rec.Seq = l.seqAfter
					rec.L = l.id
					ts.listeners = append(ts.listeners, l)
				case "sign", "signtyped", "walletfile":
					if op.A < 0 || op.A >= poolSize {
						rec.Err = "skipped"
						break
					}
					k := ks[op.A]
					var err error
					switch op.K {
					case "sign":
						var out []byte
						out, err = w.Sign(ctx, &ethsigner.Transaction{From: json.RawMessage(`"0x` + k.hex40 + `"`), Nonce: ethtypes.NewHexInteger64(int64(op.A))}, 1337)
						if err == nil && len(out) == 0 {
							err = fmt.Errorf("empty signed transaction")
						}
					case "signtyped":
						var res *ethsigner.EIP712Result
						res, err = w.SignTypedDataV4(ctx, ethtypes.Address0xHex(k.addr), &eip712.TypedData{PrimaryType: eip712.EIP712Domain})
						if err == nil && (res == nil || len(res.SignatureRSV) != 65) {
							err = fmt.Errorf("malformed typed-data result")
						}
					default:
						var wf keystorev3.WalletFile
						wf, err = w.GetWalletFile(ctx, ethtypes.Address0xHex(k.addr))
						if err == nil && [20]byte(wf.KeyPair().Address) != k.addr {
							err = fmt.Errorf("wallet file for another address")
						}
					}
					if err != nil {
						rec.Err = firstLine(err.Error())
						if sure[op.A] {
							ts.vs = append(ts.vs, evid.V("sign-usable", "signing failed although the wallet must know the (complete) key file\n%s for %s: %v", op.K, k.hex40, err))
						}
					}
				case "close":
					closeCalled.Store(true)
					if err := w.Close(); err != nil {
						rec.Err = err.Error()
					}
					if c.Listener && baseInotify >= 0 {
						if n := inotifyFDs(); n > baseInotify {
							ts.vs = append(ts.vs, evid.V("close-stops-listener", "Close returned but the wallet's inotify descriptor is still open: the event loop was not waited for\n%d open > %d before the wallet existed", n, baseInotify))
						}
					}
				default:
					rec.Err = "unknown op"
				}
				ts.recs = append(ts.recs, rec)
				ts.progress.Add(1)
			}
		}(ti, c.Threads[ti], ts)
	}
	close(start)

	// progress-based watchdog: the only cross-goroutine traffic is thread -> watchdog
	allDone := make(chan struct{})
	go func() { wg.Wait(); close(allDone) }()
	stuck := false
	{
		last := int64(-1)
		lastChange := time.Now()
		tick := time.NewTicker(200 * time.Millisecond)
	loop:
		for {
			select {
			case <-allDone:
				break loop
			case <-tick.C:
				var sum int64
				for _, ts := range threads {
					sum += ts.progress.Load()
				}
				if sum != last {
					last, lastChange = sum, time.Now()
				} else if time.Since(lastChange) > liveness {
					stuck = true
					break loop
				}
			}
		}
		tick.Stop()
	}
	if stuck {
		var blocked []string
		for ti, ts := range threads {
			if !ts.finished.Load() {
				n := int(ts.progress.Load())
				k := "?"
				if n < len(c.Threads[ti]) {
					k = c.Threads[ti][n].K
				}
				blocked = append(blocked, fmt.Sprintf("goroutine %d in op %d (%s)", ti, n, k))
			}
		}
		p := dumpGoroutines("stuck")
		// the blocked goroutines still own their records: do not touch them
		return append(vs, evid.V("liveness", "no operation completed for %s with the process otherwise idle\nblocked: %s; goroutine dump: %s", liveness, strings.Join(blocked, ", "), p))
	}
	for _, ts := range threads {
		vs = append(vs, ts.vs...)
		hist.Threads = append(hist.Threads, ts.recs)
		all = append(all, ts.listeners...)
	}

	// ---- quiescence
	timed := func(what string, f func()) bool {
		done := make(chan struct{})
		go func() { defer close(done); f() }()
		select {
		case <-done:
			return true
		case <-time.After(liveness):
			p := dumpGoroutines("stuck")
			vs = append(vs, evid.V("liveness", "%s did not return within %s\ngoroutine dump: %s", what, liveness, p))
			return false
		}
	}
	accountSet := func() (map[string]int, []string) {
		accs, _ := w.GetAccounts(ctx)
		m := map[string]int{}
		var l []string
		for _, a := range accs {
			if a != nil {
				h := hex.EncodeToString(a[:])
				m[h]++
				l = append(l, h)
			}
		}
		return m, l
	}
	created := map[string]bool{}
	firstSeq := map[string]int64{}
	for i := 0; i < c.Pre; i++ {
		created[ks[i].hex40] = true
		firstSeq[ks[i].hex40] = 0
	}
	for _, ts := range threads {
		for _, r := range ts.recs {
			if (r.K == "create" || r.K == "alias") && r.Seq > 0 {
				h := ks[r.A].hex40
				created[h] = true
				if s, ok := firstSeq[h]; !ok || r.Seq < s {
					firstSeq[h] = r.Seq
				}
			}
		}
	}
	eventsLive := c.Listener && !closeCalled.Load()
	if eventsLive {
		// A last file, discovered through the event path alone.  inotify events are
		// queued and handled in order, so once it is listed every earlier event has
		// been handled: the account list must then be complete without any Refresh.
		firstSeq[ks[sentinel].hex40] = seq.Add(1)
		if err := createFile(sentinel, false, c.Sentinel); err != nil {
			vs = append(vs, evid.V("harness", "sentinel: %v", err))
		} else {
			created[ks[sentinel].hex40] = true
			okSeen := waitFor(func() bool { m, _ := accountSet(); return m[ks[sentinel].hex40] > 0 })
			if !okSeen {
				p := dumpGoroutines("stuck")
				vs = append(vs, evid.V("accounts-converge", "a key file created with the listener running was not listed within %s (no Refresh)\ngoroutine dump: %s", liveness, p))
			} else {
				note("dyn:converged-by-events-alone(sentinel)")
				m, l := accountSet()
				for h := range created {
					if m[h] == 0 {
						vs = append(vs, evid.V("accounts-converge", "listener running, all file-system events handled, but GetAccounts misses an address\n%s (has %d of %d)", h, len(l), len(created)))
						break
					}
				}
			}
		}
	}
	if !timed("Close", func() { _ = w.Close() }) {
		return vs
	}
	if c.Listener && baseInotify >= 0 {
		if n := inotifyFDs(); n > baseInotify {
			vs = append(vs, evid.V("close-stops-listener", "Close returned but the wallet's inotify descriptor is still open: the event loop was not waited for\n%d open > %d before the wallet existed", n, baseInotify))
		}
	}
	if !timed("Refresh", func() {
		if err := w.Refresh(ctx); err != nil {
			vs = append(vs, evid.V("refresh-ok", "final Refresh failed: %v", err))
		}
	}) {
		return vs
	}
	// every notification goroutine the wallet started has to finish (the listener channels are drained)
	if !waitFor(func() bool { return goroutinesIn("fswallet.(*fsWallet).notifyNewFiles") <= baseDispatch }) {
		p := dumpGoroutines("stuck")
		vs = append(vs, evid.V("liveness", "notification dispatch still running %s after the last operation although every listener channel is being drained\ngoroutine dump: %s", liveness, p))
		return vs
	}
	stopListeners()

	// ---- the oracle over the history
	m, final := accountSet()
	hist.Final = final
	for h, n := range m {
		if n > 1 {
			vs = append(vs, evid.V("accounts-no-duplicates", "final GetAccounts lists an address more than once\n%s %d times", h, n))
		}
		if !created[h] {
			vs = append(vs, evid.V("accounts-converge", "final GetAccounts lists an address for which no file exists\n%s", h))
		}
	}
	for h := range created {
		if m[h] == 0 {
			vs = append(vs, evid.V("accounts-converge", "after a final Refresh GetAccounts misses an address that has a file\n%s (%d listed, %d files)", h, len(m), len(created)))
		}
	}
	sort.Slice(all, func(i, j int) bool { return all[i].id < all[j].id })
	mustPairs, latePairs := 0, 0
	for _, l := range all {
		hist.Listeners = append(hist.Listeners, listenerRecord{ID: l.id, SeqAfter: l.seqAfter, Got: l.got})
		cnt := map[string]int{}
		for _, h := range l.got {
			cnt[h]++
		}
		for h, n := range cnt {
			if n > 1 {
				vs = append(vs, evid.V("notify-never-twice", "a listener received an address more than once\nlistener %d received %s %d times", l.id, h, n))
			}
			if !created[h] {
				vs = append(vs, evid.V("notify-known-address", "a listener received an address for which no file exists\nlistener %d received %s", l.id, h))
			}
			if l.seqAfter > firstSeq[h] {
				latePairs++
			}
		}
		for h := range created {
			if l.seqAfter < firstSeq[h] || (l.seqAfter == 0 && firstSeq[h] == 0) {
				mustPairs++
				if cnt[h] != 1 {
					vs = append(vs, evid.V("notify-exactly-once", "a listener registered before the first file for an address was created did not receive that address exactly once\nlistener %d (registered at seq %d), address %s (file created at seq %d): received %d times", l.id, l.seqAfter, h, firstSeq[h], cnt[h]))
				}
			}
		}
	}
	if mustPairs > 0 {
		note("dyn:listener-registered-before-file(exactly-once-checked)")
	}
	if latePairs > 0 {
		note("dyn:listener-registered-after-file-still-notified")
	}
	if len(vs) > 8 {
		vs = vs[:8]
	}
	return vs
}

func debugStack() string {
	buf := make([]byte, 8192)
	return string(buf[:runtime.Stack(buf, false)])
}

func firstLine(s string) string {
	if i := strings.IndexByte(s, '\n'); i >= 0 {
		s = s[:i]
	}
	if len(s) > 160 {
		s = s[:160]
	}
	return s
}

// ---------------------------------------------------------------------------------
// generator

// the ways a key file can appear (createFile), weighted: plain write and the atomic-publish
// patterns (rename / move-in, which produce no write event on the final name) most often
var appearModes = []int{0, 0, 0, 1, 1, 1, 2, 2, 3, 4, 5, 6, 7, 7}

var appearNames = map[int]string{0: "moved-in-from-staging-dir", 1: "written-in-place", 2: "temp-name-then-renamed", 3: "created-empty-then-filled", 4: "hard-linked-in",
	5: "written-then-replaced", 6: "written-in-two-chunks", 7: "moved-up-from-sub-directory"}

func genProgram(rt *rapid.T, thorough bool) ProgramCase {
	c := ProgramCase{
		Procs:            rapid.SampledFrom([]int{1, 2, 4, 16}).Draw(rt, "gomaxprocs"),
		Listener:         rapid.IntRange(0, 3).Draw(rt, "listener") > 0,
		Layout:           rapid.SampledFrom(layouts).Draw(rt, "layout").Name,
		Pre:              rapid.SampledFrom([]int{0, 0, 1, 2, 4}).Draw(rt, "pre"),
		InitialListeners: rapid.IntRange(0, 2).Draw(rt, "initialListeners"),
	}
	if c.Listener {
		c.Sentinel = rapid.SampledFrom(appearModes).Draw(rt, "sentinelAppears")
	}
	if thorough && rapid.IntRange(0, 9).Draw(rt, "procsSweep") == 0 {
		c.Procs = rapid.IntRange(1, 16).Draw(rt, "gomaxprocsAny")
	}
	nThreads := rapid.SampledFrom([]int{2, 2, 3, 3, 4, 4, 5, 6, 8, 8, 12, 16, 24, 32}).Draw(rt, "threads")
	maxOps := 8
	if nThreads > 16 {
		maxOps = 5
	}
	nextKey := c.Pre
	const maxCreates = 40
	kinds := []string{"create", "create", "create", "alias", "refresh", "refresh", "accounts", "accounts", "listen", "listen", "listen", "sign", "sign", "sign", "signtyped", "walletfile", "close"}
	for ti := 0; ti < nThreads; ti++ {
		n := rapid.IntRange(1, maxOps).Draw(rt, fmt.Sprintf("t%d.n", ti))
		var ops []Op
		var mine []int
		for oi := 0; oi < n; oi++ {
			lbl := fmt.Sprintf("t%d.%d", ti, oi)
			k := rapid.SampledFrom(kinds).Draw(rt, lbl+".k")
			op := Op{K: k, Y: rapid.SampledFrom([]int{0, 0, 0, 1, 2, 5}).Draw(rt, lbl+".y")}
			switch k {
			case "create":
				if nextKey >= c.Pre+maxCreates || nextKey >= poolSize-1 {
					op.K = "refresh"
					break
				}
				op.A = nextKey
				nextKey++
				mine = append(mine, op.A)
				op.M = rapid.SampledFrom(appearModes).Draw(rt, lbl+".appears")
			case "alias":
				if len(mine) == 0 {
					op.K = "accounts"
					break
				}
				op.A = rapid.SampledFrom(mine).Draw(rt, lbl+".of")
				op.M = rapid.SampledFrom(appearModes).Draw(rt, lbl+".appears")
			case "listen":
				op.A = rapid.SampledFrom([]int{0, 1, 1, 4, 64}).Draw(rt, lbl+".cap")
			case "sign", "signtyped", "walletfile":
				// aim at keys that exist: pre-existing ones, own ones, or any planned so far
				switch {
				case len(mine) > 0 && rapid.IntRange(0, 2).Draw(rt, lbl+".own") == 0:
					op.A = rapid.SampledFrom(mine).Draw(rt, lbl+".key")
				case nextKey > 0:
					op.A = rapid.IntRange(0, nextKey-1).Draw(rt, lbl+".key")
				default:
					op.A = 0
				}
			case "close":
				if rapid.IntRange(0, 3).Draw(rt, lbl+".really") != 0 {
					op.K = "accounts"
				}
			}
			ops = append(ops, op)
		}
		c.Threads = append(c.Threads, ops)
	}
	return c
}

func classify(c ProgramCase) (nontrivial bool, classes []string) {
	classes = append(classes, fmt.Sprintf("gomaxprocs=%d", c.Procs), "layout="+c.Layout)
	if c.Listener {
		classes = append(classes, "listener=inotify")
	} else {
		classes = append(classes, "listener=disabled")
	}
	n := len(c.Threads)
	switch {
	case n <= 4:
		classes = append(classes, "goroutines=2..4")
	case n <= 16:
		classes = append(classes, "goroutines=5..16")
	default:
		classes = append(classes, "goroutines=17..32")
	}
	lay, _ := layoutByName(c.Layout)
	listenAfterCreate, hasClose, hasAlias := false, false, false
	discoverers := map[int]bool{}
	signers := map[int]bool{}
	listenThreads := map[int]bool{}
	appear := map[int]bool{}
	for ti, th := range c.Threads {
		createdHere := false
		for _, op := range th {
			switch op.K {
			case "create":
				createdHere = true
				discoverers[ti] = true
				appear[op.M] = true
			case "refresh":
				discoverers[ti] = true
			case "alias":
				hasAlias = true
			case "listen":
				if c.Pre > 0 || createdHere {
					listenAfterCreate = true
					listenThreads[ti] = true
				}
			case "sign", "signtyped", "walletfile":
				signers[ti] = true
			case "close":
				hasClose = true
			}
		}
	}
	overlapListen := false
	for lt := range listenThreads {
		for dt := range discoverers {
			if dt != lt {
				overlapListen = true
			}
		}
	}
	overlapSign := lay.Format == "auto" && len(signers) >= 2
	if listenAfterCreate && overlapListen {
		classes = append(classes, "AddListener-overlaps-discovery")
	}
	if overlapSign {
		classes = append(classes, "concurrent-first-sign/auto-format")
	}
	if hasClose {
		classes = append(classes, "concurrent-Close")
	}
	if hasAlias {
		classes = append(classes, "two-files-one-address")
	}
	if c.Pre > 0 {
		classes = append(classes, "files-before-Initialize")
	}
	for mde := 0; mde <= 7; mde++ {
		if appear[mde] {
			classes = append(classes, "file-appears:"+appearNames[mde])
		}
	}
	if c.Listener {
		classes = append(classes, "sentinel-appears:"+appearNames[c.Sentinel])
	}
	return n >= 2 && ((listenAfterCreate && overlapListen) || overlapSign), classes
}

// ---------------------------------------------------------------------------------

func setup(t *testing.T) {
	logrus.SetLevel(logrus.PanicLevel) // logging takes a global lock: it would add happens-before edges (and megabytes)
	logrus.SetOutput(discard{})
	baseTmp = t.TempDir()
	// the harness's own key-file writer is anchored against the library's reader (sanity, not the oracle)
	for i, k := range keys() {
		wf, err := keystorev3.ReadWalletFile(k.keyJSON, []byte(walletSecret))
		if err != nil || [20]byte(wf.KeyPair().Address) != k.addr {
			t.Fatalf("harness key pool entry %d unreadable: %v", i, err)
		}
	}
}

type discard struct{}

func (discard) Write(p []byte) (int, error) { return len(p), nil }

func TestCheck(t *testing.T) {
	rec := evid.Start("C17", rule)
	defer rec.Finish()
	setup(t)
	rec.Assume("schedules: the Go scheduler and the kernel choose the interleaving; explored = generated programs x GOMAXPROCS {1,2,4,16} (1..16 in the thorough tier) x yields, judged by the race detector (happens-before based, not timing based) and an order-insensitive history oracle")
	rec.Assume("race reports count only when a frame lies in pkg/fswallet; liveness is a 30 s bound on an otherwise idle process; Sign results are asserted only for keys whose complete file the same goroutine saw a Refresh return for")
	rec.Assume("a key file reaches its matching name in one of eight generated ways (written in place, in two chunks, created empty then filled, moved in from a staging directory, renamed from a temporary name inside the wallet directory, moved up from a sub-directory, hard-linked in, written then replaced by a rename); the convergence clauses do not depend on which - the sentinel file that closes the event-only phase appears in a generated way as well")
	rec.Assume("trusted base: Go race detector, inotify, ref/secp + harness keystore writer (anchored against keystorev3.ReadWalletFile at start-up)")
	k := evid.NewKind(rec, "program", judgeProgram)
	note = rec.Class
	rec.Corpus(t)
	rec.Rapid(t, "programs", rec.N(500, 1500), func(rt *rapid.T) {
		c := genProgram(rt, rec.Thorough())
		nt, cl := classify(c)
		k.Check(rt, c, nt, cl...)
	})
}

func TestReplay(t *testing.T) {
	rec := evid.Start("C17", rule)
	setup(t)
	evid.NewKind(rec, "program", judgeProgram)
	rec.Replay(t)
}
