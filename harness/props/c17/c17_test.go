// Package c17 decides property C17 (filesystem-wallet discovery is race free,
// notifies each new address exactly once, converges and shuts down) by running
// generated concurrent *programs* against a real wallet on a real directory
// (real inotify events) in a test binary built with -race.
//
// What decides: (i) the race detector (reports with a frame in pkg/fswallet; they
// are picked up in-process from the GORACE log so that the failing program is the
// replay file, and again by the driver from the same log as a safety net),
// (ii) an order-insensitive oracle over the observed history (per-listener
// receive counts against a harness-side sequence counter that witnesses
// "AddListener returned before the file was created"; account lists),
// (iii) 30 s liveness bounds with a goroutine dump.
//
// The Go scheduler and the kernel own the interleaving: a program is not a
// schedule.  Race failures therefore do not shrink; the program and the observed
// history are saved ($VERIF_OUT/history-<shard>*.json).
package c17

import (
	"context"
	"crypto/aes"
	"crypto/cipher"
	"encoding/hex"
	"encoding/json"
	"fmt"
	"math/big"
	"os"
	"path/filepath"
	"runtime"
	"sort"
	"strconv"
	"strings"
	"sync"
	"sync/atomic"
	"testing"
	"time"

	"github.com/hyperledger/firefly-signer/pkg/eip712"
	"github.com/hyperledger/firefly-signer/pkg/ethsigner"
	"github.com/hyperledger/firefly-signer/pkg/ethtypes"
	"github.com/hyperledger/firefly-signer/pkg/fswallet"
	"github.com/hyperledger/firefly-signer/pkg/keystorev3"
	"github.com/sirupsen/logrus"
	"golang.org/x/crypto/scrypt"
	"pgregory.net/rapid"

	"verifharness/evid"
	"verifharness/ref/secp"
)

const rule = "program with >= 2 goroutines in which listener registration or signing can overlap a discovery pass: " +
	"at least one AddListener op (a single registration or a registration storm) that comes after a file creation (a file existing before Initialize, or an earlier create / bulk op of the same goroutine) " +
	"while another goroutine creates files (key files one by one or batches of cheap matching files) or calls Refresh, or >= 2 goroutines that sign while the metadata format is still 'auto'; distinct by hash of the program"

const (
	raceFilter   = "pkg/fswallet"
	liveness     = 30 * time.Second
	poolSize     = 64
	walletSecret = "verif-c17 password"
	maxBulk      = 4096 // cheap matching files (names only matter for discovery): bulk indices 0..maxBulk-1
	maxStormRegs = 20000
)

// note counts a dynamic class label in the evidence (set by TestCheck).
var note = func(label string) {}

// baseTmp is the per-test temporary directory (t.TempDir()); every case makes its
// own sub-directory below it and removes it again.
var baseTmp string

// ---------------------------------------------------------------------------------
// key pool: immutable, built once per process from fixed seeds (no randomness)

type poolKey struct {
	addr    [20]byte
	hex40   string // lower-case, no prefix
	keyJSON []byte // keystore V3, scrypt N=2 r=1 p=1
}

var (
	pool     []poolKey
	poolOnce sync.Once
)

func pad32(i *big.Int) []byte {
	out := make([]byte, 32)
	b := i.Bytes()
	copy(out[32-len(b):], b)
	return out
}

// keystoreV3 is the harness's own minimal Web3-secret-storage writer.
func keystoreV3(i int, d *big.Int, addr [20]byte) []byte {
	salt := secp.Keccak256([]byte(fmt.Sprintf("verif-c17-salt-%d", i)))
	iv := secp.Keccak256([]byte(fmt.Sprintf("verif-c17-iv-%d", i)))[:16]
	dk, err := scrypt.Key([]byte(walletSecret), salt, 2, 1, 1, 32)
	if err != nil {
		panic(err)
	}
	block, err := aes.NewCipher(dk[:16])
	if err != nil {
		panic(err)
	}
	ct := make([]byte, 32)
	cipher.NewCTR(block, iv).XORKeyStream(ct, pad32(d))
	mac := secp.Keccak256(dk[16:32], ct)
	u := secp.Keccak256([]byte(fmt.Sprintf("verif-c17-id-%d", i)))[:16]
	u[6] = (u[6] & 0x0f) | 0x40
	u[8] = (u[8] & 0x3f) | 0x80
	id := fmt.Sprintf("%x-%x-%x-%x-%x", u[0:4], u[4:6], u[6:8], u[8:10], u[10:16])
	doc := map[string]interface{}{
		"id":      id,
		"version": 3,
		"address": hex.EncodeToString(addr[:]),
		"crypto": map[string]interface{}{
			"cipher":       "aes-128-ctr",
			"ciphertext":   hex.EncodeToString(ct),
			"cipherparams": map[string]interface{}{"iv": hex.EncodeToString(iv)},
			"kdf":          "scrypt",
			"kdfparams":    map[string]interface{}{"dklen": 32, "n": 2, "r": 1, "p": 1, "salt": hex.EncodeToString(salt)},
			"mac":          hex.EncodeToString(mac),
		},
	}
	b, _ := json.Marshal(doc)
	return b
}

func keys() []poolKey {
	poolOnce.Do(func() {
		nm1 := new(big.Int).Sub(secp.N, big.NewInt(1))
		for i := 0; i < poolSize; i++ {
			d := new(big.Int).SetBytes(secp.Keccak256([]byte(fmt.Sprintf("verif-c17-key-%d", i))))
			d.Mod(d, nm1)
			d.Add(d, big.NewInt(1))
			a := secp.AddressOfKey(d)
			pool = append(pool, poolKey{addr: a, hex40: hex.EncodeToString(a[:]), keyJSON: keystoreV3(i, d, a)})
		}
	})
	return pool
}

// bulk addresses: the account list depends on file NAMES only, so directories with hundreds of
// entries are made of empty files named after these (fixed, seedless) addresses.  Their name order is
// unrelated to their index.
var (
	bulkAddr [][20]byte
	bulkHex  []string
	bulkOnce sync.Once
)

func bulk() ([][20]byte, []string) {
	bulkOnce.Do(func() {
		for i := 0; i < maxBulk; i++ {
			var a [20]byte
			copy(a[:], secp.Keccak256([]byte(fmt.Sprintf("verif-c17-bulk-%d", i)))[12:])
			bulkAddr = append(bulkAddr, a)
			bulkHex = append(bulkHex, hex.EncodeToString(a[:]))
		}
	})
	return bulkAddr, bulkHex
}

// ---------------------------------------------------------------------------------
// directory layouts / configurations

type layout struct {
	Name   string
	Ext    string // primary extension ("" when a regular expression is used)
	Regex  string
	Format string // metadata.format handed to the wallet
	Meta   string // "", "toml", "json", "yaml": what the primary file contains
}

var layouts = []layout{
	{Name: "keyfile/auto", Ext: ".key.json", Format: "auto"},
	{Name: "keyfile/explicit", Ext: ".key.json", Format: "none"},
	{Name: "keyfile-regex/auto", Regex: `^((0x)?[0-9a-f]{40})\.key\.json$`, Format: "auto"},
	{Name: "toml/auto", Ext: ".toml", Format: "auto", Meta: "toml"},
	{Name: "toml/explicit", Ext: ".toml", Format: "toml", Meta: "toml"},
	{Name: "json/auto", Ext: ".json", Format: "auto", Meta: "json"},
	{Name: "yaml/auto", Ext: ".yaml", Format: "auto", Meta: "yaml"},
	{Name: "yaml/explicit", Ext: ".yaml", Format: "yaml", Meta: "yaml"},
}

func layoutByName(n string) (layout, bool) {
	for _, l := range layouts {
		if l.Name == n {
			return l, true
		}
	}
	return layout{}, false
}

func (l layout) fileName(k poolKey, alias bool) string {
	ext := l.Ext
	if l.Regex != "" {
		ext = ".key.json"
	}
	if alias {
		return "0x" + k.hex40 + ext
	}
	return k.hex40 + ext
}

// bulkFileName: every seventh cheap file carries the optional 0x prefix.
func (l layout) bulkFileName(i int) string {
	_, hx := bulk()
	ext := l.Ext
	if l.Regex != "" {
		ext = ".key.json"
	}
	if i%7 == 3 {
		return "0x" + hx[i] + ext
	}
	return hx[i] + ext
}

// junkName: directory entries that must NOT be listed, spread over the name order: other
// extensions, near-miss addresses under the matching extension, sub-directories (also under a
// matching name: only files count).
func (l layout) junkName(i int) (name string, dir bool) {
	ext := l.Ext
	if l.Regex != "" {
		ext = ".key.json"
	}
	pre := fmt.Sprintf("%02x", (i*37)%256)
	switch i % 5 {
	case 0:
		return fmt.Sprintf("%s-note-%d.txt", pre, i), false
	case 1:
		return fmt.Sprintf("%s%037d%s", pre, i, ext), false // 39 hex digits: not an address
	case 2:
		return fmt.Sprintf("%sdir-%d", pre, i), true
	case 3:
		return fmt.Sprintf("%s%038d%s.bak", pre, i, ext), false // an address, but another extension
	default:
		return fmt.Sprintf("%s%038x%s", pre, i+1, ext), true // a DIRECTORY under a matching name
	}
}

type caseDirs struct{ root, wallet, stage, keys, pwd, defPwd string }

func (l layout) primaryContent(d caseDirs, idx int, k poolKey) []byte {
	if l.Meta == "" {
		return k.keyJSON
	}
	keyPath := filepath.Join(d.keys, k.hex40+".json")
	pwdPath := ""
	if idx%2 == 0 {
		pwdPath = filepath.Join(d.pwd, k.hex40+".pwd")
	}
	switch l.Meta {
	case "toml":
		s := fmt.Sprintf("[metadata]\ndescription = \"key %d\"\n\n[signing]\ntype = \"file-based-signer\"\nkey-file = %q\n", idx, keyPath)
		if pwdPath != "" {
			s += fmt.Sprintf("password-file = %q\n", pwdPath)
		}
		return []byte(s)
	case "json":
		m := map[string]interface{}{"key-file": keyPath}
		if pwdPath != "" {
			m["password-file"] = pwdPath
		}
		b, _ := json.Marshal(map[string]interface{}{"signing": m})
		return b
	default: // yaml
		s := fmt.Sprintf("signing:\n  key-file: %q\n", keyPath)
		if pwdPath != "" {
			s += fmt.Sprintf("  password-file: %q\n", pwdPath)
		}
		return []byte(s)
	}
}

// ---------------------------------------------------------------------------------
// the case: a program

// Op kinds: create (A = key index, M = the way the file appears, see createFile: 0 moved in
// from a staging directory, 1 written in place, 2 temporary name then renamed, 3 created empty
// then filled, 4 hard-linked in, 5 written then replaced, 6 written in two chunks, 7 moved up
// from a sub-directory),
// alias (A = key index created earlier by the same goroutine; a second file name
// "0x…" for the same address), refresh, accounts, listen (A = channel capacity),
// sign / signtyped / walletfile (A = key index), close.  Y = runtime.Gosched()
// calls before the op.
//
// bulk: N cheap matching files (bulk indices A..A+N-1; empty files, only their names matter) appear one
// after the other, M = 0 each moved in from the staging directory, 1 each created in place, 4 each
// hard-linked to one staged file; R > 0: Refresh after every R files (and after the last one).
// Every file has its own sequence number.
//
// storm: a registration storm.  The goroutine calls AddListener in a tight loop (Y yields between two
// registrations) until every goroutine that has no storm op has finished, at most A times; every channel
// is buffered for all addresses that can still appear and is read only at the end.
//
// G (listen; always for storm): call GetAccounts right after AddListener returned and remember the
// answer - an address missing from it appeared after the registration, whenever its file was created.
type Op struct {
	K string `json:"k"`
	A int    `json:"a,omitempty"`
	M int    `json:"m,omitempty"`
	Y int    `json:"y,omitempty"`
	N int    `json:"n,omitempty"`
	R int    `json:"r,omitempty"`
	G bool   `json:"g,omitempty"`
}

type ProgramCase struct {
	Procs            int    `json:"gomaxprocs"`
	Listener         bool   `json:"listener"`
	Layout           string `json:"layout"`
	Pre              int    `json:"pre"`                // key files 0..Pre-1 exist before Initialize
	BulkPre          int    `json:"bulk_pre,omitempty"` // cheap matching files (bulk indices 0..BulkPre-1) exist before Initialize
	Junk             int    `json:"junk,omitempty"`     // directory entries that match nothing exist before Initialize
	InitialListeners int    `json:"initial_listeners"`  // passed to NewFilesystemWallet
	Sentinel         int    `json:"sentinel,omitempty"` // how the last file (discovered through events alone) appears: see createFile
	Threads          [][]Op `json:"threads"`
}

// ---- history (saved, not judged by anything but the oracle below)

type opRecord struct {
	K    string  `json:"k"`
	A    int     `json:"a,omitempty"`
	Seq  int64   `json:"seq,omitempty"`  // create/alias: counter value taken before the file appears; listen: after AddListener returned
	Seqs []int64 `json:"seqs,omitempty"` // bulk: one per file
	N    int     `json:"n,omitempty"`    // accounts: length; storm: registrations made
	Err  string  `json:"err,omitempty"`
	L    int     `json:"listener,omitempty"`
}

type listenerRecord struct {
	ID       int      `json:"id"`
	SeqAfter int64    `json:"registered_seq"` // 0 = before Initialize
	Listed   *int     `json:"listed_after_registration,omitempty"`
	Got      []string `json:"received"`
}

type history struct {
	Program   ProgramCase      `json:"program"`
	Threads   [][]opRecord     `json:"threads,omitempty"`
	Listeners []listenerRecord `json:"listeners,omitempty"`
	Final     []string         `json:"final_accounts,omitempty"`
	Notes     []string         `json:"notes,omitempty"`
	Race      string           `json:"race_report,omitempty"`
	Verdict   []evid.Violation `json:"violations,omitempty"`
}

func outDir() string {
	if d := os.Getenv("VERIF_OUT"); d != "" {
		return d
	}
	return ""
}

func shard() string {
	if s := os.Getenv("VERIF_SHARD"); s != "" {
		return s
	}
	return "0"
}

func writeHistory(name string, h *history) {
	d := outDir()
	if d == "" {
		return
	}
	b, err := json.Marshal(h)
	if err != nil {
		return
	}
	_ = os.WriteFile(filepath.Join(d, name), b, 0o644)
}

// ---- race log (GORACE log_path=<p> makes the runtime write reports to <p>.<pid>)

func raceLogPath() string {
	for _, f := range strings.Fields(os.Getenv("GORACE")) {
		if strings.HasPrefix(f, "log_path=") {
			p := strings.TrimPrefix(f, "log_path=")
			if p == "stderr" || p == "stdout" || p == "" {
				return ""
			}
			return p + "." + strconv.Itoa(os.Getpid())
		}
	}
	return ""
}

func raceMark() int64 {
	p := raceLogPath()
	if p == "" {
		return 0
	}
	st, err := os.Stat(p)
	if err != nil {
		return 0
	}
	return st.Size()
}

// raceSince returns the reports written after mark that have a frame in the filtered package.
func raceSince(mark int64) []string {
	p := raceLogPath()
	if p == "" {
		return nil
	}
	b, err := os.ReadFile(p)
	if err != nil || int64(len(b)) <= mark {
		return nil
	}
	var out []string
	for _, block := range strings.Split(string(b[mark:]), "==================") {
		if strings.Contains(block, "DATA RACE") && strings.Contains(block, raceFilter) {
			out = append(out, strings.TrimSpace(block))
		}
	}
	return out
}

var raceSaved atomic.Int32

// ---- goroutine inspection

// walletGoroutines counts the goroutines that belong to the wallet: a frame in, or "created by" a function of,
// pkg/fswallet - whatever the function is called - and no frame of this harness (a harness goroutine inside a
// wallet call is not the wallet's).  Goroutines parked in a receive or a select are idle workers, not work in
// progress, and are not counted: the listener channels are being drained, so a send cannot stay parked.
func walletGoroutines() int {
	buf := make([]byte, 1<<20)
	for {
		n := runtime.Stack(buf, true)
		if n < len(buf) {
			buf = buf[:n]
			break
		}
		buf = make([]byte, 2*len(buf))
	}
	n := 0
	for _, blk := range strings.Split(string(buf), "\n\n") {
		if !strings.Contains(blk, "firefly-signer/pkg/fswallet.") || strings.Contains(blk, "verifharness/") {
			continue
		}
		head := blk
		if i := strings.IndexByte(blk, '\n'); i >= 0 {
			head = blk[:i]
		}
		if strings.Contains(head, "[chan receive") || strings.Contains(head, "[select") {
			continue
		}
		n++
	}
	return n
}

func dumpGoroutines(tag string) string {
	buf := make([]byte, 1<<20)
	for {
		n := runtime.Stack(buf, true)
		if n < len(buf) {
			buf = buf[:n]
			break
		}
		buf = make([]byte, 2*len(buf))
	}
	if d := outDir(); d != "" {
		p := filepath.Join(d, fmt.Sprintf("goroutines-%s-%s.txt", shard(), tag))
		_ = os.WriteFile(p, buf, 0o644)
		return p
	}
	return ""
}

func inotifyFDs() int {
	ents, err := os.ReadDir("/proc/self/fd")
	if err != nil {
		return -1
	}
	n := 0
	for _, e := range ents {
		if t, err := os.Readlink("/proc/self/fd/" + e.Name()); err == nil && strings.Contains(t, "inotify") {
			n++
		}
	}
	return n
}

// waitFor polls cond (cheap, idempotent) until it holds or the liveness bound expires.
func waitFor(cond func() bool) bool {
	deadline := time.Now().Add(liveness)
	pause := 50 * time.Microsecond
	for {
		if cond() {
			return true
		}
		if time.Now().After(deadline) {
			return cond()
		}
		time.Sleep(pause)
		if pause < 5*time.Millisecond {
			pause *= 2
		}
	}
}

// ---- listeners

type listener struct {
	id       int
	ch       chan ethtypes.Address0xHex
	seqAfter int64
	looked   bool                     // GetAccounts was called right after AddListener returned ...
	seen     []*ethtypes.Address0xHex // ... and answered this
	got      []string                 // written by the drainer only; read after the drainer has stopped
	mu       sync.Mutex
	cnt      map[string]int // the same, countable while the drainer runs
	stop     chan struct{}
	done     chan struct{}
}

func (l *listener) received(h string) int {
	l.mu.Lock()
	defer l.mu.Unlock()
	return l.cnt[h]
}

func newListener(id, capacity int) *listener {
	l := &listener{id: id, ch: make(chan ethtypes.Address0xHex, capacity), stop: make(chan struct{}), done: make(chan struct{}), cnt: map[string]int{}}
	take := func(a ethtypes.Address0xHex) {
		h := hex.EncodeToString(a[:])
		l.got = append(l.got, h)
		l.mu.Lock()
		l.cnt[h]++
		l.mu.Unlock()
	}
	go func() {
		defer close(l.done)
		for {
			select {
			case a := <-l.ch:
				take(a)
			case <-l.stop:
				for {
					select {
					case a := <-l.ch:
						take(a)
					default:
						return
					}
				}
			}
		}
	}()
	return l
}

// ---- the judge

// stormReg is one registration of a storm: no goroutine behind it, the channel holds everything.
type stormReg struct {
	ch       chan ethtypes.Address0xHex
	seqAfter int64
	seen     []*ethtypes.Address0xHex // GetAccounts right after AddListener returned
	got      []int32                  // address numbers received (filled when the channel is emptied)
}

type threadState struct {
	recs      []opRecord
	vs        []evid.Violation
	listeners []*listener
	storm     []*stormReg
	bulkSeq   map[int]int64 // bulk index -> sequence number taken before the file appeared
	progress  atomic.Int64
	finished  atomic.Bool
}

func judgeProgram(c ProgramCase) (vs []evid.Violation) {
	ks := keys()
	lay, ok := layoutByName(c.Layout)
	if !ok {
		return []evid.Violation{evid.V("harness", "unknown layout %q", c.Layout)}
	}
	if c.Pre < 0 || c.Pre > poolSize-2 || len(c.Threads) == 0 || c.BulkPre < 0 || c.BulkPre > maxBulk || c.Junk < 0 || c.Junk > 4096 {
		return []evid.Violation{evid.V("harness", "bad case shape")}
	}
	bAddr, bHex := bulk()
	hist := &history{Program: c}
	histName := fmt.Sprintf("history-%s.json", shard())
	writeHistory(histName, hist) // before anything runs: a crash or a hang leaves the program behind
	mark := raceMark()
	defer func() {
		if reps := raceSince(mark); len(reps) > 0 {
			hist.Race = reps[0]
			vs = append(vs, evid.V("no-data-race", "race detector report with a frame in %s\n%d report(s) during this program:\n%s", raceFilter, len(reps), reps[0]))
			if n := raceSaved.Add(1); n <= 3 {
				hist.Verdict = vs
				writeHistory(fmt.Sprintf("history-%s-race%d.json", shard(), n), hist)
			}
		}
		hist.Verdict = vs
		writeHistory(histName, hist)
	}()

	procs := c.Procs
	if procs < 1 {
		procs = 1
	}
	prev := runtime.GOMAXPROCS(procs)
	defer runtime.GOMAXPROCS(prev)

	// ---- directories
	parent := baseTmp
	root, err := os.MkdirTemp(parent, "c17-")
	if err != nil {
		return []evid.Violation{evid.V("harness", "mkdir: %v", err)}
	}
	defer os.RemoveAll(root)
	d := caseDirs{root: root, wallet: filepath.Join(root, "wallet"), stage: filepath.Join(root, "stage"), keys: filepath.Join(root, "keys"), pwd: filepath.Join(root, "pwd"), defPwd: filepath.Join(root, "default.pwd")}
	for _, p := range []string{d.wallet, d.stage, d.keys, d.pwd} {
		if err := os.Mkdir(p, 0o755); err != nil {
			return []evid.Violation{evid.V("harness", "mkdir: %v", err)}
		}
	}
	_ = os.WriteFile(d.defPwd, []byte(walletSecret), 0o600) // used verbatim by the wallet (only per-key password files are trimmed)

	// which keys does the program use?
	used := map[int]bool{}
	for i := 0; i < c.Pre; i++ {
		used[i] = true
	}
	sentinel := poolSize - 1
	usedBulk := make([]bool, maxBulk)
	for i := 0; i < c.BulkPre; i++ {
		usedBulk[i] = true
	}
	lateAddrs := 1 // addresses that can appear after Initialize: the sentinel, every create op, every file of a bulk op
	isStorm := make([]bool, len(c.Threads))
	var nonStormLeft atomic.Int64
	for ti, th := range c.Threads {
		for _, op := range th {
			switch op.K {
			case "create":
				if op.A < c.Pre || op.A >= sentinel || used[op.A] {
					return []evid.Violation{evid.V("harness", "create op with key index %d: out of range or reused", op.A)}
				}
				used[op.A] = true
				lateAddrs++
			case "bulk":
				if op.N < 1 || op.A < c.BulkPre || op.A+op.N > maxBulk {
					return []evid.Violation{evid.V("harness", "bulk op %d..+%d: out of range", op.A, op.N)}
				}
				for i := op.A; i < op.A+op.N; i++ {
					if usedBulk[i] {
						return []evid.Violation{evid.V("harness", "bulk op %d..+%d: index %d reused", op.A, op.N, i)}
					}
					usedBulk[i] = true
				}
				lateAddrs += op.N
			case "storm":
				if op.A < 1 || op.A > maxStormRegs {
					return []evid.Violation{evid.V("harness", "storm op with %d registrations: out of range", op.A)}
				}
				isStorm[ti] = true
			}
		}
		if !isStorm[ti] {
			nonStormLeft.Add(1)
		}
	}
	used[sentinel] = true
	// every address the program can ever list gets a number (the storm oracle works on numbers)
	addrNum := map[[20]byte]int32{}
	var numHex []string
	planned := map[string]bool{}
	for i := 0; i < poolSize; i++ {
		if used[i] {
			addrNum[ks[i].addr] = int32(len(numHex))
			numHex = append(numHex, ks[i].hex40)
		}
	}
	for i, u := range usedBulk {
		if u {
			addrNum[bAddr[i]] = int32(len(numHex))
			numHex = append(numHex, bHex[i])
			planned[bHex[i]] = true
		}
	}
	for i := range used {
		planned[ks[i].hex40] = true
		if lay.Meta != "" {
			_ = os.WriteFile(filepath.Join(d.keys, ks[i].hex40+".json"), ks[i].keyJSON, 0o600)
		}
		if i%2 == 0 {
			_ = os.WriteFile(filepath.Join(d.pwd, ks[i].hex40+".pwd"), []byte(walletSecret+"\n"), 0o600)
		}
	}
	var stageN atomic.Int64
	// createFile makes the primary file of key idx appear under its matching name in one of
	// the ways a file can get there (the wallet has to notice it whichever way it came):
	//   0 written in a staging directory next to the wallet directory, then renamed (moved) in
	//   1 written in place under its final name
	//   2 written under a temporary, non-matching name inside the wallet directory, then renamed
	//   3 created empty under its final name, filled by a second open/write
	//   4 written in the staging directory, then hard-linked in
	//   5 written in place, then replaced by a rename over it (same content)
	//   6 written in place in two chunks
	//   7 written in a sub-directory of the wallet directory, then moved up
	// It returns once the complete file is in place.
	createFile := func(idx int, alias bool, mode int) error {
		name := lay.fileName(ks[idx], alias)
		content := lay.primaryContent(d, idx, ks[idx])
		final := filepath.Join(d.wallet, name)
		staged := func(dir, prefix string) (string, error) {
			tmp := filepath.Join(dir, fmt.Sprintf("%s%d", prefix, stageN.Add(1)))
			return tmp, os.WriteFile(tmp, content, 0o600)
		}
		switch mode {
		case 1:
			return os.WriteFile(final, content, 0o600)
		case 2:
			tmp, err := staged(d.wallet, ".incoming-")
			if err != nil {
				return err
			}
			return os.Rename(tmp, final)
		case 3, 6:
			f, err := os.OpenFile(final, os.O_CREATE|os.O_WRONLY|os.O_TRUNC, 0o600)
			if err != nil {
				return err
			}
			cut := 0
			if mode == 6 {
				cut = len(content) / 2
				if _, err := f.Write(content[:cut]); err != nil {
					f.Close()
					return err
				}
			}
			if mode == 3 {
				if err := f.Close(); err != nil {
					return err
				}
				runtime.Gosched()
				if f, err = os.OpenFile(final, os.O_WRONLY, 0o600); err != nil {
					return err
				}
			} else {
				runtime.Gosched()
			}
			if _, err := f.Write(content[cut:]); err != nil {
				f.Close()
				return err
			}
			return f.Close()
		case 4:
			tmp, err := staged(d.stage, "l")
			if err != nil {
				return err
			}
			err = os.Link(tmp, final)
			if err != nil && os.IsExist(err) {
				return os.Rename(tmp, final) // a second delivery of the same name (alias op repeated): replace it
			}
			return err
		case 5:
			if err := os.WriteFile(final, content, 0o600); err != nil {
				return err
			}
			tmp, err := staged(d.stage, "r")
			if err != nil {
				return err
			}
			return os.Rename(tmp, final)
		case 7:
			sub := filepath.Join(d.wallet, "incoming")
			if err := os.MkdirAll(sub, 0o755); err != nil {
				return err
			}
			tmp, err := staged(sub, "m")
			if err != nil {
				return err
			}
			return os.Rename(tmp, final)
		default:
			tmp, err := staged(d.stage, "s")
			if err != nil {
				return err
			}
			return os.Rename(tmp, final)
		}
	}
	// createBulk makes the (empty) file of bulk address idx appear under its matching name:
	// 0 created in the staging directory and moved in, 1 created in place, 4 hard-linked to one staged file.
	var bulkSrcOnce sync.Once
	bulkSrc := filepath.Join(d.stage, "bulk-source")
	createBulk := func(idx, mode int) error {
		final := filepath.Join(d.wallet, lay.bulkFileName(idx))
		switch mode {
		case 1:
			return os.WriteFile(final, nil, 0o600)
		case 4:
			bulkSrcOnce.Do(func() { _ = os.WriteFile(bulkSrc, nil, 0o600) })
			return os.Link(bulkSrc, final)
		default:
			tmp := filepath.Join(d.stage, fmt.Sprintf("b%d", stageN.Add(1)))
			if err := os.WriteFile(tmp, nil, 0o600); err != nil {
				return err
			}
			return os.Rename(tmp, final)
		}
	}
	for i := 0; i < c.Pre; i++ {
		if err := createFile(i, false, 0); err != nil {
			return []evid.Violation{evid.V("harness", "pre-create: %v", err)}
		}
	}
	for i := 0; i < c.BulkPre; i++ {
		mode := 4 // cheapest; every ninth is a file of its own
		if i%9 == 4 {
			mode = 1
		}
		if err := createBulk(i, mode); err != nil {
			return []evid.Violation{evid.V("harness", "pre-create (bulk): %v", err)}
		}
	}
	for i := 0; i < c.Junk; i++ {
		name, dir := lay.junkName(i)
		var err error
		if dir {
			err = os.Mkdir(filepath.Join(d.wallet, name), 0o755)
		} else {
			err = os.WriteFile(filepath.Join(d.wallet, name), []byte("not a key\n"), 0o600)
		}
		if err != nil {
			return []evid.Violation{evid.V("harness", "pre-create (junk): %v", err)}
		}
	}

	// ---- the wallet
	conf := &fswallet.Config{
		Path:                d.wallet,
		DefaultPasswordFile: d.defPwd,
		SignerCacheSize:     "250",
		SignerCacheTTL:      "24h",
		DisableListener:     !c.Listener,
		Filenames: fswallet.FilenamesConfig{
			PrimaryExt:        lay.Ext,
			PrimaryMatchRegex: lay.Regex,
			PasswordExt:       ".pwd",
			PasswordPath:      d.pwd,
			PasswordTrimSpace: true,
		},
		Metadata: fswallet.MetadataConfig{Format: lay.Format},
	}
	if lay.Meta != "" {
		conf.Metadata.KeyFileProperty = `{{ index .signing "key-file" }}`
		conf.Metadata.PasswordFileProperty = `{{ index .signing "password-file" }}`
	}
	ctx := context.Background()
	baseDispatch := walletGoroutines()
	baseInotify := inotifyFDs()

	var all []*listener
	var initial []chan<- ethtypes.Address0xHex
	for i := 0; i < c.InitialListeners; i++ {
		l := newListener(len(all), 1+i)
		all = append(all, l)
		initial = append(initial, l.ch)
	}
	stopListeners := func() {
		for _, l := range all {
			close(l.stop)
		}
		for _, l := range all {
			<-l.done
		}
	}
	// The number of inotify instances is limited per USER (fs.inotify.max_user_instances, 128 here), not per
	// process: other jobs on the machine can use them up, then the wallet's listener cannot start.  That is not
	// the property's business: wait for an instance (a fresh wallet each time), and give the case up as
	// infrastructure if none turns up.  (A wallet that leaked its own descriptors is caught where it leaks:
	// close-stops-listener.)  Close is not to be trusted after a failed start: it is given two seconds.
	var w fswallet.Wallet
	for attempt, waited := 0, time.Duration(0); ; attempt++ {
		var err error
		w, err = fswallet.NewFilesystemWallet(ctx, conf, initial...)
		if err != nil {
			stopListeners()
			return []evid.Violation{evid.V("harness", "NewFilesystemWallet: %v", err)}
		}
		if err = w.Initialize(ctx); err == nil {
			if attempt > 0 {
				note("dyn:waited-for-an-inotify-instance")
			}
			break
		}
		closed := make(chan struct{})
		go func(w fswallet.Wallet) { defer close(closed); _ = w.Close() }(w)
		select {
		case <-closed:
		case <-time.After(2 * time.Second):
		}
		hist.Notes = append(hist.Notes, "Initialize failed: "+firstLine(err.Error()))
		exhausted := c.Listener && (strings.Contains(err.Error(), "too many open files") || strings.Contains(err.Error(), "no space left on device"))
		if own := inotifyFDs(); exhausted && own <= baseInotify+2 && own < 16 && waited < 3*time.Minute {
			pause := 250 * time.Millisecond << uint(min(attempt, 4))
			time.Sleep(pause)
			waited += pause
			continue
		} else if exhausted && own <= baseInotify+2 && own < 16 {
			stopListeners()
			return []evid.Violation{evid.Infra("no inotify instance became available within %s (per-user limit, used up by other processes): %v", waited, err)}
		}
		stopListeners()
		return []evid.Violation{evid.V("harness", "Initialize: %v", err)}
	}

	// ---- run the threads
	var seq atomic.Int64
	closeCalled := atomic.Bool{}
	nextListenerID := atomic.Int64{}
	nextListenerID.Store(int64(len(all)))
	threads := make([]*threadState, len(c.Threads))
	start := make(chan struct{})
	var wg sync.WaitGroup
	for ti := range c.Threads {
		ts := &threadState{}
		threads[ti] = ts
		wg.Add(1)
		go func(ti int, ops []Op, ts *threadState) {
			defer wg.Done()
			defer ts.finished.Store(true)
			if !isStorm[ti] {
				defer nonStormLeft.Add(-1)
			}
			defer func() {
				if p := recover(); p != nil {
					ts.vs = append(ts.vs, evid.V("no-panic", "a wallet operation panicked\ngoroutine %d: %v\n%s", ti, p, debugStack()))
				}
			}()
			<-start
			mine := map[int]bool{}       // keys whose file this goroutine created (completely)
			sure := map[int]bool{}       // … and then saw a Refresh return: the wallet must know them
			for i := 0; i < c.Pre; i++ { // discovered by Initialize
				sure[i] = true
			}
			var mineBulk, sureBulk []int // the same for cheap files (those existing before Initialize are checked separately)
			for _, op := range ops {
				for y := 0; y < op.Y; y++ {
					runtime.Gosched()
				}
				rec := opRecord{K: op.K, A: op.A}
				switch op.K {
				case "create":
					rec.Seq = seq.Add(1)
					if err := createFile(op.A, false, op.M); err != nil {
						ts.vs = append(ts.vs, evid.V("harness", "create file: %v", err))
					} else {
						mine[op.A] = true
					}
				case "alias":
					if !mine[op.A] {
						rec.Err = "skipped"
						break
					}
					rec.Seq = seq.Add(1)
					if err := createFile(op.A, true, op.M); err != nil {
						ts.vs = append(ts.vs, evid.V("harness", "create alias: %v", err))
					}
				case "bulk":
					if ts.bulkSeq == nil {
						ts.bulkSeq = map[int]int64{}
					}
					rec.N = op.N
					for i := op.A; i < op.A+op.N; i++ {
						sq := seq.Add(1)
						if err := createBulk(i, op.M); err != nil {
							ts.vs = append(ts.vs, evid.V("harness", "create cheap file: %v", err))
							break
						}
						ts.bulkSeq[i] = sq
						rec.Seqs = append(rec.Seqs, sq)
						mineBulk = append(mineBulk, i)
						if op.R > 0 && ((i-op.A+1)%op.R == 0 || i == op.A+op.N-1) {
							if err := w.Refresh(ctx); err != nil {
								rec.Err = err.Error()
								ts.vs = append(ts.vs, evid.V("refresh-ok", "Refresh of an existing directory failed: %v", err))
								break
							}
							for k := range mine {
								sure[k] = true
							}
							sureBulk, mineBulk = append(sureBulk, mineBulk...), mineBulk[:0]
						}
					}
				case "storm":
					yields := op.Y
					for n := 0; n < op.A; n++ {
						if n&15 == 15 && nonStormLeft.Load() == 0 {
							break
						}
						r := &stormReg{ch: make(chan ethtypes.Address0xHex, lateAddrs+2)}
						w.AddListener(r.ch)
						r.seqAfter = seq.Add(1)
						r.seen, _ = w.GetAccounts(ctx)
						ts.storm = append(ts.storm, r)
						for y := 0; y < yields; y++ {
							runtime.Gosched()
						}
					}
					rec.N = len(ts.storm)
				case "refresh":
					if err := w.Refresh(ctx); err != nil {
						rec.Err = err.Error()
						ts.vs = append(ts.vs, evid.V("refresh-ok", "Refresh of an existing directory failed: %v", err))
					} else {
						for k := range mine {
							sure[k] = true
						}
						sureBulk, mineBulk = append(sureBulk, mineBulk...), mineBulk[:0]
					}
				case "accounts":
					accs, err := w.GetAccounts(ctx)
					rec.N = len(accs)
					if err != nil {
						rec.Err = err.Error()
					}
					seen := map[string]bool{}
					for _, a := range accs {
						if a == nil {
							ts.vs = append(ts.vs, evid.V("accounts-known", "GetAccounts returned a nil entry"))
							continue
						}
						h := hex.EncodeToString(a[:])
						if seen[h] {
							ts.vs = append(ts.vs, evid.V("accounts-no-duplicates", "GetAccounts lists an address twice\n%s (%d entries)", h, len(accs)))
						}
						seen[h] = true
						if !planned[h] {
							ts.vs = append(ts.vs, evid.V("accounts-known", "GetAccounts lists an address for which no file was ever created\n%s", h))
						}
					}
					for k := range sure {
						if !seen[ks[k].hex40] {
							ts.vs = append(ts.vs, evid.V("accounts-converge", "GetAccounts misses an address although its file was complete before a Refresh that returned earlier in the same goroutine\n%s", ks[k].hex40))
						}
					}
					missing := 0
					for k := 0; k < c.BulkPre; k++ {
						if !seen[bHex[k]] {
							if missing++; missing == 1 {
								ts.vs = append(ts.vs, evid.V("accounts-converge", "GetAccounts misses an address although its file existed before Initialize\n%s (file %s; %d matching files and %d other entries existed before Initialize; %d listed now)", bHex[k], lay.bulkFileName(k), c.Pre+c.BulkPre, c.Junk, len(accs)))
							}
						}
					}
					for _, k := range sureBulk {
						if !seen[bHex[k]] {
							if missing++; missing == 1 {
								ts.vs = append(ts.vs, evid.V("accounts-converge", "GetAccounts misses an address although its file existed before a Refresh that returned earlier in the same goroutine\n%s (file %s; %d listed now)", bHex[k], lay.bulkFileName(k), len(accs)))
							}
						}
					}
				case "listen":
					capacity := op.A
					if capacity < 0 {
						capacity = 0
					}
					l := newListener(int(nextListenerID.Add(1))-1, capacity)
					w.AddListener(l.ch)
					l.seqAfter = seq.Add(1)
					if op.G {
						l.looked = true
						l.seen, _ = w.GetAccounts(ctx)
					}
					rec.Seq = l.seqAfter
					rec.L = l.id
					ts.listeners = append(ts.listeners, l)
				case "sign", "signtyped", "walletfile":
					if op.A < 0 || op.A >= poolSize {
						rec.Err = "skipped"
						break
					}
					k := ks[op.A]
					var err error
					switch op.K {
					case "sign":
						var out []byte
						out, err = w.Sign(ctx, &ethsigner.Transaction{From: json.RawMessage(`"0x` + k.hex40 + `"`), Nonce: ethtypes.NewHexInteger64(int64(op.A))}, 1337)
						if err == nil && len(out) == 0 {
							err = fmt.Errorf("empty signed transaction")
						}
					case "signtyped":
						var res *ethsigner.EIP712Result
						res, err = w.SignTypedDataV4(ctx, ethtypes.Address0xHex(k.addr), &eip712.TypedData{PrimaryType: eip712.EIP712Domain})
						if err == nil && (res == nil || len(res.SignatureRSV) != 65) {
							err = fmt.Errorf("malformed typed-data result")
						}
					default:
						var wf keystorev3.WalletFile
						wf, err = w.GetWalletFile(ctx, ethtypes.Address0xHex(k.addr))
						if err == nil && [20]byte(wf.KeyPair().Address) != k.addr {
							err = fmt.Errorf("wallet file for another address")
						}
					}
					if err != nil {
						rec.Err = firstLine(err.Error())
						if sure[op.A] {
							ts.vs = append(ts.vs, evid.V("sign-usable", "signing failed although the wallet must know the (complete) key file\n%s for %s: %v", op.K, k.hex40, err))
						}
					}
				case "close":
					closeCalled.Store(true)
					if err := w.Close(); err != nil {
						rec.Err = err.Error()
					}
					if c.Listener && baseInotify >= 0 {
						if n := inotifyFDs(); n > baseInotify {
							ts.vs = append(ts.vs, evid.V("close-stops-listener", "Close returned but the wallet's inotify descriptor is still open: the event loop was not waited for\n%d open > %d before the wallet existed", n, baseInotify))
						}
					}
				default:
					rec.Err = "unknown op"
				}
				ts.recs = append(ts.recs, rec)
				ts.progress.Add(1)
			}
		}(ti, c.Threads[ti], ts)
	}
	close(start)

	// progress-based watchdog: the only cross-goroutine traffic is thread -> watchdog
	allDone := make(chan struct{})
	go func() { wg.Wait(); close(allDone) }()
	stuck := false
	{
		last := int64(-1)
		lastChange := time.Now()
		tick := time.NewTicker(200 * time.Millisecond)
	loop:
		for {
			select {
			case <-allDone:
				break loop
			case <-tick.C:
				var sum int64
				for _, ts := range threads {
					sum += ts.progress.Load()
				}
				if sum != last {
					last, lastChange = sum, time.Now()
				} else if time.Since(lastChange) > liveness {
					stuck = true
					break loop
				}
			}
		}
		tick.Stop()
	}
	if stuck {
		var blocked []string
		for ti, ts := range threads {
			if !ts.finished.Load() {
				n := int(ts.progress.Load())
				k := "?"
				if n < len(c.Threads[ti]) {
					k = c.Threads[ti][n].K
				}
				blocked = append(blocked, fmt.Sprintf("goroutine %d in op %d (%s)", ti, n, k))
			}
		}
		p := dumpGoroutines("stuck")
		// the blocked goroutines still own their records: do not touch them
		return append(vs, evid.V("liveness", "no operation completed for %s with the process otherwise idle\nblocked: %s; goroutine dump: %s", liveness, strings.Join(blocked, ", "), p))
	}
	var regs []*stormReg
	for _, ts := range threads {
		vs = append(vs, ts.vs...)
		hist.Threads = append(hist.Threads, ts.recs)
		all = append(all, ts.listeners...)
		regs = append(regs, ts.storm...)
	}
	// emptyStorm moves what the storm's channels hold into the registrations' records (the harness is the only reader)
	strayStorm := 0
	emptyStorm := func() {
		for _, r := range regs {
			for len(r.ch) > 0 {
				a := <-r.ch
				n, ok := addrNum[[20]byte(a)]
				if !ok {
					n = -1
					if strayStorm++; strayStorm == 1 {
						vs = append(vs, evid.V("notify-known-address", "a listener received an address for which no file was ever created\n%s", hex.EncodeToString(a[:])))
					}
				}
				r.got = append(r.got, n)
			}
		}
	}

	// ---- quiescence
	timed := func(what string, f func()) bool {
		done := make(chan struct{})
		go func() { defer close(done); f() }()
		select {
		case <-done:
			return true
		case <-time.After(liveness):
			p := dumpGoroutines("stuck")
			vs = append(vs, evid.V("liveness", "%s did not return within %s\ngoroutine dump: %s", what, liveness, p))
			return false
		}
	}
	accountSet := func() (map[string]int, []string) {
		accs, _ := w.GetAccounts(ctx)
		m := map[string]int{}
		var l []string
		for _, a := range accs {
			if a != nil {
				h := hex.EncodeToString(a[:])
				m[h]++
				l = append(l, h)
			}
		}
		return m, l
	}
	created := map[string]bool{}
	firstSeq := map[string]int64{}
	for i := 0; i < c.Pre; i++ {
		created[ks[i].hex40] = true
		firstSeq[ks[i].hex40] = 0
	}
	for i := 0; i < c.BulkPre; i++ {
		created[bHex[i]] = true
		firstSeq[bHex[i]] = 0
	}
	for _, ts := range threads {
		for _, r := range ts.recs {
			if (r.K == "create" || r.K == "alias") && r.Seq > 0 {
				h := ks[r.A].hex40
				created[h] = true
				if s, ok := firstSeq[h]; !ok || r.Seq < s {
					firstSeq[h] = r.Seq
				}
			}
		}
		for i, sq := range ts.bulkSeq {
			created[bHex[i]] = true
			firstSeq[bHex[i]] = sq
		}
	}
	eventsLive := c.Listener && !closeCalled.Load()
	if eventsLive {
		// A last file, discovered through the event path alone.  inotify events are
		// queued and handled in order, so once it is listed every earlier event has
		// been handled: the account list must then be complete without any Refresh.
		firstSeq[ks[sentinel].hex40] = seq.Add(1)
		if err := createFile(sentinel, false, c.Sentinel); err != nil {
			vs = append(vs, evid.V("harness", "sentinel: %v", err))
		} else {
			created[ks[sentinel].hex40] = true
			okSeen := waitFor(func() bool { m, _ := accountSet(); return m[ks[sentinel].hex40] > 0 })
			if !okSeen {
				p := dumpGoroutines("stuck")
				vs = append(vs, evid.V("accounts-converge", "a key file created with the listener running was not listed within %s (no Refresh)\ngoroutine dump: %s", liveness, p))
			} else {
				note("dyn:converged-by-events-alone(sentinel)")
				m, l := accountSet()
				for h := range created {
					if m[h] == 0 {
						vs = append(vs, evid.V("accounts-converge", "listener running, all file-system events handled, but GetAccounts misses an address\n%s (has %d of %d)", h, len(l), len(created)))
						break
					}
				}
			}
		}
	}
	if !timed("Close", func() { _ = w.Close() }) {
		return vs
	}
	if c.Listener && baseInotify >= 0 {
		if n := inotifyFDs(); n > baseInotify {
			vs = append(vs, evid.V("close-stops-listener", "Close returned but the wallet's inotify descriptor is still open: the event loop was not waited for\n%d open > %d before the wallet existed", n, baseInotify))
		}
	}
	if !timed("Refresh", func() {
		if err := w.Refresh(ctx); err != nil {
			vs = append(vs, evid.V("refresh-ok", "final Refresh failed: %v", err))
		}
	}) {
		return vs
	}
	// Quiescence, without relying on how the wallet organises its dispatch.  (1) The notifications the oracle
	// below will demand are known already: wait for each of them (bounded by the liveness limit; what has not
	// arrived by then is reported by the oracle as not received).  (2) Then every goroutine the wallet started
	// has to finish or park (the listener channels are being drained), so that a duplicate still on its way
	// is seen too.
	{
		finalNow, _ := accountSet()
		type pair struct {
			l *listener
			h string
		}
		var expect []pair
		for _, l := range all {
			var listedThen map[string]bool
			if l.looked {
				listedThen = map[string]bool{}
				for _, a := range l.seen {
					if a != nil {
						listedThen[hex.EncodeToString(a[:])] = true
					}
				}
			}
			for h := range created {
				if l.seqAfter < firstSeq[h] || (l.seqAfter == 0 && firstSeq[h] == 0) || (l.looked && !listedThen[h] && finalNow[h] > 0) {
					expect = append(expect, pair{l, h})
				}
			}
		}
		waitFor(func() bool {
			emptyStorm()
			for len(expect) > 0 && expect[len(expect)-1].l.received(expect[len(expect)-1].h) > 0 {
				expect = expect[:len(expect)-1]
			}
			return len(expect) == 0
		})
	}
	if !waitFor(func() bool { emptyStorm(); return walletGoroutines() <= baseDispatch }) {
		p := dumpGoroutines("stuck")
		vs = append(vs, evid.V("liveness", "notification dispatch still running %s after the last operation although every listener channel is being drained\ngoroutine dump: %s", liveness, p))
		return vs
	}
	stopListeners()
	emptyStorm()

	// ---- the oracle over the history
	m, final := accountSet()
	hist.Final = final
	for h, n := range m {
		if n > 1 {
			vs = append(vs, evid.V("accounts-no-duplicates", "final GetAccounts lists an address more than once\n%s %d times", h, n))
		}
		if !created[h] {
			vs = append(vs, evid.V("accounts-converge", "final GetAccounts lists an address for which no file exists\n%s", h))
		}
	}
	for h := range created {
		if m[h] == 0 {
			vs = append(vs, evid.V("accounts-converge", "after a final Refresh GetAccounts misses an address that has a file\n%s (%d listed, %d files)", h, len(m), len(created)))
		}
	}
	sort.Slice(all, func(i, j int) bool { return all[i].id < all[j].id })
	mustPairs, latePairs, windowPairs := 0, 0, 0
	for _, l := range all {
		hist.Listeners = append(hist.Listeners, listenerRecord{ID: l.id, SeqAfter: l.seqAfter, Got: l.got})
		cnt := map[string]int{}
		for _, h := range l.got {
			cnt[h]++
		}
		var listedThen map[string]bool
		if l.looked {
			listedThen = map[string]bool{}
			for _, a := range l.seen {
				if a != nil {
					listedThen[hex.EncodeToString(a[:])] = true
				}
			}
			n := len(l.seen)
			hist.Listeners[len(hist.Listeners)-1].Listed = &n
		}
		for h, n := range cnt {
			if n > 1 {
				vs = append(vs, evid.V("notify-never-twice", "a listener received an address more than once\nlistener %d received %s %d times", l.id, h, n))
			}
			if !created[h] {
				vs = append(vs, evid.V("notify-known-address", "a listener received an address for which no file exists\nlistener %d received %s", l.id, h))
			}
			if l.seqAfter > firstSeq[h] {
				latePairs++
			}
		}
		for h := range created {
			if l.seqAfter < firstSeq[h] || (l.seqAfter == 0 && firstSeq[h] == 0) {
				mustPairs++
				if cnt[h] != 1 {
					vs = append(vs, evid.V("notify-exactly-once", "a listener registered before the first file for an address was created did not receive that address exactly once\nlistener %d (registered at seq %d), address %s (file created at seq %d): received %d times", l.id, l.seqAfter, h, firstSeq[h], cnt[h]))
				}
			} else if l.looked && !listedThen[h] && m[h] > 0 {
				// the file may have been on its way already, but the wallet did not list the address yet
				// when AddListener had returned: it appeared after the registration
				windowPairs++
				if cnt[h] != 1 {
					vs = append(vs, evid.V("notify-exactly-once", "a listener that was registered while the account list did not contain an address yet did not receive that address exactly once\nlistener %d (registered at seq %d; GetAccounts called after AddListener returned listed %d addresses, not this one), address %s (file created at seq %d, listed now): received %d times", l.id, l.seqAfter, len(l.seen), h, firstSeq[h], cnt[h]))
				}
			}
		}
	}
	vs = append(vs, judgeStorm(regs, numHex, addrNum, created, firstSeq, m, w, hist, &mustPairs, &windowPairs)...)
	if windowPairs > 0 {
		note("dyn:listener-registered-between-file-creation-and-listing(exactly-once-checked)")
	}
	if len(regs) > 0 {
		switch {
		case len(regs) >= 3000:
			note("dyn:storm-registrations>=3000")
		case len(regs) >= 500:
			note("dyn:storm-registrations=500..2999")
		default:
			note("dyn:storm-registrations<500")
		}
	}
	if mustPairs > 0 {
		note("dyn:listener-registered-before-file(exactly-once-checked)")
	}
	if latePairs > 0 {
		note("dyn:listener-registered-after-file-still-notified")
	}
	if len(vs) > 8 {
		vs = vs[:8]
	}
	return vs
}

// judgeStorm applies the per-listener clauses to the registrations of a storm.  Two witnesses say that a
// registration came before an address appeared: (a) AddListener had returned before the harness started to
// create the file (sequence counter), (b) the account list fetched after AddListener had returned does not
// contain the address, and the address is listed in the end (the list only grows).
func judgeStorm(regs []*stormReg, numHex []string, addrNum map[[20]byte]int32, created map[string]bool, firstSeq map[string]int64,
	finalCount map[string]int, w fswallet.Wallet, hist *history, mustPairs, windowPairs *int) (vs []evid.Violation) {
	if len(regs) == 0 {
		return nil
	}
	nA := len(numHex)
	isCreated := make([]bool, nA)
	first := make([]int64, nA)
	listed := make([]bool, nA)
	var createdNums []int32
	for n, h := range numHex {
		if created[h] {
			isCreated[n] = true
			first[n] = firstSeq[h]
			listed[n] = finalCount[h] > 0
			createdNums = append(createdNums, int32(n))
		}
	}
	// The usual case: the answer a registration saw is a prefix of the final list (same objects). Then
	// "was listed" is a comparison of positions; otherwise the set is built.
	finalPtrs, _ := w.GetAccounts(context.Background())
	pos := make([]int, nA)
	for i := range pos {
		pos[i] = -1
	}
	for i, p := range finalPtrs {
		if p != nil {
			if n, ok := addrNum[[20]byte(*p)]; ok && pos[n] < 0 {
				pos[n] = i
			}
		}
	}
	cnt := make([]uint16, nA)
	seenSet := make([]bool, nA)
	missedA, missedB, twice, unknown := 0, 0, 0, 0
	record := func(r *stormReg, i int) {
		if len(hist.Listeners) < 24 {
			var got []string
			for _, n := range r.got {
				if n >= 0 {
					got = append(got, numHex[n])
				} else {
					got = append(got, "?")
				}
			}
			k := len(r.seen)
			hist.Listeners = append(hist.Listeners, listenerRecord{ID: -(i + 1), SeqAfter: r.seqAfter, Listed: &k, Got: got})
		}
	}
	for i, r := range regs {
		prefix := len(r.seen) <= len(finalPtrs)
		if prefix {
			for j, p := range r.seen {
				if p != finalPtrs[j] {
					prefix = false
					break
				}
			}
		}
		if !prefix {
			for _, p := range r.seen {
				if p != nil {
					if n, ok := addrNum[[20]byte(*p)]; ok {
						seenSet[n] = true
					}
				}
			}
		}
		bad := false
		for _, n := range r.got {
			if n < 0 {
				continue // reported when the channel was emptied
			}
			cnt[n]++
			if !isCreated[n] {
				bad = true
				if unknown++; unknown == 1 {
					vs = append(vs, evid.V("notify-known-address", "a listener received an address for which no file exists\nstorm registration %d received %s", i, numHex[n]))
				}
			}
		}
		for _, n := range createdNums {
			k := cnt[n]
			if k > 1 {
				bad = true
				if twice++; twice == 1 {
					vs = append(vs, evid.V("notify-never-twice", "a listener received an address more than once\nstorm registration %d (registered at seq %d) received %s %d times", i, r.seqAfter, numHex[n], k))
				}
			}
			wasListed := seenSet[n]
			if prefix {
				wasListed = pos[n] >= 0 && pos[n] < len(r.seen)
			}
			switch {
			case first[n] > 0 && r.seqAfter < first[n]:
				*mustPairs++
				if k != 1 {
					bad = true
					if missedA++; missedA == 1 {
						vs = append(vs, evid.V("notify-exactly-once", "a listener registered before the first file for an address was created did not receive that address exactly once\nstorm registration %d (AddListener returned at seq %d), address %s (file created at seq %d): received %d times", i, r.seqAfter, numHex[n], first[n], k))
					}
				}
			case !wasListed && listed[n]:
				*windowPairs++
				if k != 1 {
					bad = true
					if missedB++; missedB == 1 {
						vs = append(vs, evid.V("notify-exactly-once", "a listener that was registered while the account list did not contain an address yet did not receive that address exactly once\nstorm registration %d (AddListener returned at seq %d; GetAccounts called after that listed %d addresses, not this one), address %s (file created at seq %d, listed now): received %d times", i, r.seqAfter, len(r.seen), numHex[n], first[n], k))
					}
				}
			}
		}
		if bad {
			record(r, i)
		}
		for _, n := range r.got {
			if n >= 0 {
				cnt[n] = 0
			}
		}
		if !prefix {
			for j := range seenSet {
				seenSet[j] = false
			}
		}
	}
	hist.Notes = append(hist.Notes, fmt.Sprintf("storm: %d registrations; exactly-once violated for %d (registration, address) pairs by the sequence witness and %d by the account-list witness; %d double deliveries", len(regs), missedA, missedB, twice))
	return vs
}

// bucket names the interval of the (ascending) bounds that n falls into: "<b0", "b0..b1-1", ..., ">=bk".
func bucket(n int, bounds ...int) string {
	for i, b := range bounds {
		if n < b {
			if i == 0 {
				return fmt.Sprintf("<%d", b)
			}
			if bounds[i-1] == b-1 {
				return strconv.Itoa(b - 1)
			}
			return fmt.Sprintf("%d..%d", bounds[i-1], b-1)
		}
	}
	return fmt.Sprintf(">=%d", bounds[len(bounds)-1])
}

func debugStack() string {
	buf := make([]byte, 8192)
	return string(buf[:runtime.Stack(buf, false)])
}

func firstLine(s string) string {
	if i := strings.IndexByte(s, '\n'); i >= 0 {
		s = s[:i]
	}
	if len(s) > 160 {
		s = s[:160]
	}
	return s
}

// ---------------------------------------------------------------------------------
// generator

// the ways a key file can appear (createFile), weighted: plain write and the atomic-publish
// patterns (rename / move-in, which produce no write event on the final name) most often
var appearModes = []int{0, 0, 0, 1, 1, 1, 2, 2, 3, 4, 5, 6, 7, 7}

var appearNames = map[int]string{0: "moved-in-from-staging-dir", 1: "written-in-place", 2: "temp-name-then-renamed", 3: "created-empty-then-filled", 4: "hard-linked-in",
	5: "written-then-replaced", 6: "written-in-two-chunks", 7: "moved-up-from-sub-directory"}

// directory sizes around and across plausible batch / buffer boundaries
var bigSizes = []int{31, 32, 33, 49, 50, 51, 63, 64, 65, 99, 100, 101, 127, 128, 129, 199, 200, 201,
	249, 250, 251, 255, 256, 257, 299, 300, 301, 499, 500, 501, 511, 512, 513, 749, 750, 751, 999, 1000, 1001, 1023, 1024, 1025}

func genBigSize(rt *rapid.T, label string, max int) int {
	n := 0
	switch rapid.IntRange(0, 3).Draw(rt, label+".how") {
	case 0:
		n = rapid.IntRange(200, 1200).Draw(rt, label+".any")
	default:
		n = rapid.SampledFrom(bigSizes).Draw(rt, label+".edge")
	}
	if n > max {
		n = max
	}
	return n
}

var bulkModes = []int{0, 1, 1, 4}

// genProgram draws one of three shapes: "mixed" (a handful of ops per goroutine on real key files, as
// before, now and then with a small batch of cheap files), "big-directory" (hundreds of matching files and
// other entries before Initialize and/or added in batches while the program runs) and "registration-storm"
// (goroutines registering listeners in tight loops while others let files trickle in and refresh).
func genProgram(rt *rapid.T, thorough bool) ProgramCase {
	// rapid favours the ends of an integer range (0..7 take two draws in five, 99 another 3 %): the rare shapes
	// sit in the flat middle, where a value comes up about once in 200 draws
	switch s := rapid.IntRange(0, 99).Draw(rt, "shape"); {
	case s >= 40 && s < 48:
		return genBigDirectory(rt, thorough)
	case s >= 53 && s < 64:
		return genStorm(rt, thorough)
	}
	return genMixed(rt, thorough)
}

func genBigDirectory(rt *rapid.T, thorough bool) ProgramCase {
	c := ProgramCase{
		Procs:            rapid.SampledFrom([]int{1, 2, 4, 16}).Draw(rt, "gomaxprocs"),
		Listener:         rapid.IntRange(0, 1).Draw(rt, "listener") > 0,
		Layout:           rapid.SampledFrom(layouts).Draw(rt, "layout").Name,
		Pre:              rapid.SampledFrom([]int{0, 1, 2, 4}).Draw(rt, "pre"),
		InitialListeners: rapid.IntRange(0, 2).Draw(rt, "initialListeners"),
	}
	if c.Listener {
		c.Sentinel = rapid.SampledFrom(appearModes).Draw(rt, "sentinelAppears")
	}
	budget := 1100 // files per program (time)
	if thorough {
		budget = 2600
	}
	if rapid.IntRange(0, 4).Draw(rt, "bulkPre?") > 0 {
		c.BulkPre = genBigSize(rt, "bulkPre", budget) - c.Pre // the boundary is about all matching files
		if c.BulkPre < 0 {
			c.BulkPre = 0
		}
	}
	switch rapid.IntRange(0, 5).Draw(rt, "junk?") {
	case 0:
		c.Junk = rapid.IntRange(1, 6).Draw(rt, "junk")
	case 1:
		c.Junk = genBigSize(rt, "junk", 600)
	case 2:
		// the boundary is about all entries: fill up to an edge
		if edge := rapid.SampledFrom(bigSizes).Draw(rt, "entries"); edge > c.Pre+c.BulkPre {
			c.Junk = edge - c.Pre - c.BulkPre
			if c.Junk > 600 {
				c.Junk = 600
			}
		}
	}
	budget -= c.BulkPre
	nThreads := rapid.SampledFrom([]int{2, 2, 3, 4, 6, 8}).Draw(rt, "threads")
	nextKey, nextBulk := c.Pre, c.BulkPre
	kinds := []string{"bulk", "bulk", "bulk", "create", "refresh", "refresh", "refresh", "accounts", "accounts", "listen", "listen", "sign", "walletfile", "close"}
	for ti := 0; ti < nThreads; ti++ {
		n := rapid.IntRange(1, 6).Draw(rt, fmt.Sprintf("t%d.n", ti))
		var ops []Op
		var mine []int
		for oi := 0; oi < n; oi++ {
			lbl := fmt.Sprintf("t%d.%d", ti, oi)
			k := rapid.SampledFrom(kinds).Draw(rt, lbl+".k")
			op := Op{K: k, Y: rapid.SampledFrom([]int{0, 0, 0, 1, 2}).Draw(rt, lbl+".y")}
			switch k {
			case "bulk":
				size := 0
				if rapid.IntRange(0, 2).Draw(rt, lbl+".small") == 0 {
					size = rapid.IntRange(1, 40).Draw(rt, lbl+".files")
				} else {
					size = genBigSize(rt, lbl+".files", 700)
				}
				if size > budget {
					size = budget
				}
				if size < 1 || nextBulk+size > maxBulk {
					op.K = "refresh"
					break
				}
				op.A, op.N = nextBulk, size
				nextBulk += size
				budget -= size
				op.M = rapid.SampledFrom(bulkModes).Draw(rt, lbl+".appears")
				op.R = rapid.SampledFrom([]int{0, 0, 0, size, 50, 100, 250}).Draw(rt, lbl+".refreshEvery")
			case "create":
				if nextKey >= poolSize-1 {
					op.K = "refresh"
					break
				}
				op.A = nextKey
				nextKey++
				mine = append(mine, op.A)
				op.M = rapid.SampledFrom(appearModes).Draw(rt, lbl+".appears")
			case "listen":
				op.A = rapid.SampledFrom([]int{0, 1, 4, 64, 2048}).Draw(rt, lbl+".cap")
				op.G = rapid.Bool().Draw(rt, lbl+".look")
			case "sign", "walletfile":
				switch {
				case len(mine) > 0 && rapid.IntRange(0, 2).Draw(rt, lbl+".own") == 0:
					op.A = rapid.SampledFrom(mine).Draw(rt, lbl+".key")
				case nextKey > 0:
					op.A = rapid.IntRange(0, nextKey-1).Draw(rt, lbl+".key")
				}
			case "close":
				if rapid.IntRange(0, 3).Draw(rt, lbl+".really") != 0 {
					op.K = "accounts"
				}
			}
			ops = append(ops, op)
		}
		c.Threads = append(c.Threads, ops)
	}
	return c
}

func genStorm(rt *rapid.T, thorough bool) ProgramCase {
	c := ProgramCase{
		Procs:            rapid.SampledFrom([]int{2, 4, 4, 16, 16}).Draw(rt, "gomaxprocs"),
		Listener:         rapid.Bool().Draw(rt, "listener"),
		Layout:           rapid.SampledFrom(layouts).Draw(rt, "layout").Name,
		Pre:              rapid.SampledFrom([]int{0, 1, 2}).Draw(rt, "pre"),
		BulkPre:          rapid.SampledFrom([]int{0, 0, 3, 20}).Draw(rt, "bulkPre"),
		InitialListeners: rapid.IntRange(0, 1).Draw(rt, "initialListeners"),
	}
	if c.Listener {
		c.Sentinel = rapid.SampledFrom(appearModes).Draw(rt, "sentinelAppears")
	}
	if thorough && rapid.IntRange(0, 5).Draw(rt, "procsSweep") == 0 {
		c.Procs = rapid.IntRange(1, 16).Draw(rt, "gomaxprocsAny")
	}
	registrars := rapid.IntRange(2, 8).Draw(rt, "registrars")
	total := rapid.SampledFrom([]int{800, 2000, 4000, 6000}).Draw(rt, "registrations")
	if thorough {
		total = rapid.SampledFrom([]int{800, 2000, 5000, 8000, 12000}).Draw(rt, "registrationsT")
	}
	feeders := rapid.IntRange(1, 2).Draw(rt, "feeders")
	nextKey, nextBulk := c.Pre, c.BulkPre
	for f := 0; f < feeders; f++ {
		lbl := fmt.Sprintf("f%d", f)
		var ops []Op
		batches := rapid.IntRange(1, 3).Draw(rt, lbl+".batches")
		for b := 0; b < batches; b++ {
			bl := fmt.Sprintf("%s.%d", lbl, b)
			size := rapid.IntRange(8, 40).Draw(rt, bl+".files")
			op := Op{K: "bulk", A: nextBulk, N: size, M: rapid.SampledFrom(bulkModes).Draw(rt, bl+".appears")}
			nextBulk += size
			// the file trickle is a trickle of discovery passes: a Refresh per file (or per few files), or the events alone
			if c.Listener {
				op.R = rapid.SampledFrom([]int{0, 0, 1, 1, 3}).Draw(rt, bl+".refreshEvery")
			} else {
				op.R = rapid.SampledFrom([]int{1, 1, 1, 2, 5}).Draw(rt, bl+".refreshEvery")
			}
			ops = append(ops, op)
			switch rapid.IntRange(0, 5).Draw(rt, bl+".then") {
			case 0:
				ops = append(ops, Op{K: "accounts"})
			case 1:
				if nextKey < poolSize-1 {
					ops = append(ops, Op{K: "create", A: nextKey, M: rapid.SampledFrom(appearModes).Draw(rt, bl+".appears2")}, Op{K: "refresh"}, Op{K: "sign", A: nextKey})
					nextKey++
				}
			case 2:
				ops = append(ops, Op{K: "listen", A: 256, G: true})
			}
		}
		c.Threads = append(c.Threads, ops)
	}
	for r := 0; r < registrars; r++ {
		lbl := fmt.Sprintf("r%d", r)
		var ops []Op
		if rapid.IntRange(0, 3).Draw(rt, lbl+".first") == 0 {
			ops = append(ops, Op{K: "accounts"})
		}
		ops = append(ops, Op{K: "storm", A: total / registrars, Y: rapid.SampledFrom([]int{0, 0, 1, 1, 2}).Draw(rt, lbl+".y")})
		c.Threads = append(c.Threads, ops)
	}
	return c
}

func genMixed(rt *rapid.T, thorough bool) ProgramCase {
	c := ProgramCase{
		Procs:            rapid.SampledFrom([]int{1, 2, 4, 16}).Draw(rt, "gomaxprocs"),
		Listener:         rapid.IntRange(0, 3).Draw(rt, "listener") > 0,
		Layout:           rapid.SampledFrom(layouts).Draw(rt, "layout").Name,
		Pre:              rapid.SampledFrom([]int{0, 0, 1, 2, 4}).Draw(rt, "pre"),
		InitialListeners: rapid.IntRange(0, 2).Draw(rt, "initialListeners"),
	}
	if c.Listener {
		c.Sentinel = rapid.SampledFrom(appearModes).Draw(rt, "sentinelAppears")
	}
	if thorough && rapid.IntRange(0, 9).Draw(rt, "procsSweep") == 0 {
		c.Procs = rapid.IntRange(1, 16).Draw(rt, "gomaxprocsAny")
	}
	nThreads := rapid.SampledFrom([]int{2, 2, 3, 3, 4, 4, 5, 6, 8, 8, 12, 16, 24, 32}).Draw(rt, "threads")
	maxOps := 8
	if nThreads > 16 {
		maxOps = 5
	}
	nextKey := c.Pre
	nextBulk := 0
	const maxCreates = 40
	kinds := []string{"create", "create", "create", "alias", "refresh", "refresh", "accounts", "accounts", "listen", "listen", "listen", "sign", "sign", "sign", "signtyped", "walletfile", "close",
		"create", "create", "create", "alias", "refresh", "refresh", "accounts", "bulk", "accounts", "listen", "listen", "listen", "sign", "sign", "sign", "signtyped", "walletfile", "close"}
	for ti := 0; ti < nThreads; ti++ {
		n := rapid.IntRange(1, maxOps).Draw(rt, fmt.Sprintf("t%d.n", ti))
		var ops []Op
		var mine []int
		for oi := 0; oi < n; oi++ {
			lbl := fmt.Sprintf("t%d.%d", ti, oi)
			k := rapid.SampledFrom(kinds).Draw(rt, lbl+".k")
			op := Op{K: k, Y: rapid.SampledFrom([]int{0, 0, 0, 1, 2, 5}).Draw(rt, lbl+".y")}
			switch k {
			case "create":
				if nextKey >= c.Pre+maxCreates || nextKey >= poolSize-1 {
					op.K = "refresh"
					break
				}
				op.A = nextKey
				nextKey++
				mine = append(mine, op.A)
				op.M = rapid.SampledFrom(appearModes).Draw(rt, lbl+".appears")
			case "alias":
				if len(mine) == 0 {
					op.K = "accounts"
					break
				}
				op.A = rapid.SampledFrom(mine).Draw(rt, lbl+".of")
				op.M = rapid.SampledFrom(appearModes).Draw(rt, lbl+".appears")
			case "bulk":
				op.N = rapid.IntRange(1, 16).Draw(rt, lbl+".files")
				op.A = nextBulk
				nextBulk += op.N
				op.M = rapid.SampledFrom(bulkModes).Draw(rt, lbl+".appears")
				op.R = rapid.SampledFrom([]int{0, 0, 1, 4}).Draw(rt, lbl+".refreshEvery")
			case "listen":
				op.A = rapid.SampledFrom([]int{0, 1, 1, 4, 64}).Draw(rt, lbl+".cap")
				op.G = rapid.Bool().Draw(rt, lbl+".look")
			case "sign", "signtyped", "walletfile":
				// aim at keys that exist: pre-existing ones, own ones, or any planned so far
				switch {
				case len(mine) > 0 && rapid.IntRange(0, 2).Draw(rt, lbl+".own") == 0:
					op.A = rapid.SampledFrom(mine).Draw(rt, lbl+".key")
				case nextKey > 0:
					op.A = rapid.IntRange(0, nextKey-1).Draw(rt, lbl+".key")
				default:
					op.A = 0
				}
			case "close":
				if rapid.IntRange(0, 3).Draw(rt, lbl+".really") != 0 {
					op.K = "accounts"
				}
			}
			ops = append(ops, op)
		}
		c.Threads = append(c.Threads, ops)
	}
	return c
}

func classify(c ProgramCase) (nontrivial bool, classes []string) {
	classes = append(classes, fmt.Sprintf("gomaxprocs=%d", c.Procs), "layout="+c.Layout)
	if c.Listener {
		classes = append(classes, "listener=inotify")
	} else {
		classes = append(classes, "listener=disabled")
	}
	n := len(c.Threads)
	switch {
	case n <= 4:
		classes = append(classes, "goroutines=2..4")
	case n <= 16:
		classes = append(classes, "goroutines=5..16")
	default:
		classes = append(classes, "goroutines=17..32")
	}
	lay, _ := layoutByName(c.Layout)
	listenAfterCreate, hasClose, hasAlias := false, false, false
	storms, stormRegs, bulkFiles, biggestBulk, looks := 0, 0, 0, 0, 0
	discoverers := map[int]bool{}
	signers := map[int]bool{}
	listenThreads := map[int]bool{}
	appear := map[int]bool{}
	for ti, th := range c.Threads {
		createdHere := false
		for _, op := range th {
			switch op.K {
			case "create":
				createdHere = true
				discoverers[ti] = true
				appear[op.M] = true
			case "bulk":
				createdHere = true
				discoverers[ti] = true
				bulkFiles += op.N
				if op.N > biggestBulk {
					biggestBulk = op.N
				}
			case "refresh":
				discoverers[ti] = true
			case "alias":
				hasAlias = true
			case "listen", "storm":
				if op.K == "storm" {
					storms++
					stormRegs += op.A
				} else if op.G {
					looks++
				}
				if c.Pre > 0 || c.BulkPre > 0 || createdHere {
					listenAfterCreate = true
					listenThreads[ti] = true
				}
			case "sign", "signtyped", "walletfile":
				signers[ti] = true
			case "close":
				hasClose = true
			}
		}
	}
	overlapListen := false
	for lt := range listenThreads {
		for dt := range discoverers {
			if dt != lt {
				overlapListen = true
			}
		}
	}
	overlapSign := lay.Format == "auto" && len(signers) >= 2
	if listenAfterCreate && overlapListen {
		classes = append(classes, "AddListener-overlaps-discovery")
	}
	if overlapSign {
		classes = append(classes, "concurrent-first-sign/auto-format")
	}
	if hasClose {
		classes = append(classes, "concurrent-Close")
	}
	if hasAlias {
		classes = append(classes, "two-files-one-address")
	}
	if c.Pre > 0 || c.BulkPre > 0 {
		classes = append(classes, "files-before-Initialize")
	}
	switch {
	case storms > 0:
		classes = append(classes, "shape=registration-storm")
	case c.BulkPre+c.Junk+bulkFiles >= 200:
		classes = append(classes, "shape=big-directory")
	default:
		classes = append(classes, "shape=mixed")
	}
	if storms > 0 {
		classes = append(classes, fmt.Sprintf("storm-goroutines=%s", bucket(storms, 2, 4, 8)), fmt.Sprintf("storm-registrations(max)=%s", bucket(stormRegs, 1000, 3000, 6000)))
	}
	if looks > 0 {
		classes = append(classes, "listen-then-GetAccounts")
	}
	if e := c.Pre + c.BulkPre + c.Junk; e > 0 {
		classes = append(classes, "entries-before-Initialize="+bucket(e, 5, 250, 251, 500, 1000))
		if e > 250 && e%250 != 0 {
			classes = append(classes, "entries-before-Initialize>250,not-a-multiple-of-250")
		}
	}
	if c.Junk > 0 {
		classes = append(classes, "non-matching-entries="+bucket(c.Junk, 10, 250))
	}
	if bulkFiles > 0 {
		classes = append(classes, "cheap-files-added="+bucket(bulkFiles, 25, 250, 251, 1000), "biggest-batch="+bucket(biggestBulk, 25, 250, 251, 500))
	}
	for mde := 0; mde <= 7; mde++ {
		if appear[mde] {
			classes = append(classes, "file-appears:"+appearNames[mde])
		}
	}
	if c.Listener {
		classes = append(classes, "sentinel-appears:"+appearNames[c.Sentinel])
	}
	return n >= 2 && ((listenAfterCreate && overlapListen) || overlapSign), classes
}

// ---------------------------------------------------------------------------------

func setup(t *testing.T) {
	logrus.SetLevel(logrus.PanicLevel) // logging takes a global lock: it would add happens-before edges (and megabytes)
	logrus.SetOutput(discard{})
	baseTmp = t.TempDir()
	// the harness's own key-file writer is anchored against the library's reader (sanity, not the oracle)
	for i, k := range keys() {
		wf, err := keystorev3.ReadWalletFile(k.keyJSON, []byte(walletSecret))
		if err != nil || [20]byte(wf.KeyPair().Address) != k.addr {
			t.Fatalf("harness key pool entry %d unreadable: %v", i, err)
		}
	}
}

type discard struct{}

func (discard) Write(p []byte) (int, error) { return len(p), nil }

func TestCheck(t *testing.T) {
	rec := evid.Start("C17", rule)
	defer rec.Finish()
	setup(t)
	rec.Assume("schedules: the Go scheduler and the kernel choose the interleaving; explored = generated programs x GOMAXPROCS {1,2,4,16} (1..16 in the thorough tier) x yields, judged by the race detector (happens-before based, not timing based) and an order-insensitive history oracle")
	rec.Assume("race reports count only when a frame lies in pkg/fswallet; liveness is a 30 s bound on an otherwise idle process; Sign results are asserted only for keys whose complete file the same goroutine saw a Refresh return for")
	rec.Assume("a key file reaches its matching name in one of eight generated ways (written in place, in two chunks, created empty then filled, moved in from a staging directory, renamed from a temporary name inside the wallet directory, moved up from a sub-directory, hard-linked in, written then replaced by a rename); the convergence clauses do not depend on which - the sentinel file that closes the event-only phase appears in a generated way as well")
	rec.Assume("registered before an address first appears: witnessed either by a harness sequence counter (AddListener returned before the harness began to create the first file for the address) or by the wallet's own account list (a GetAccounts issued after AddListener returned does not contain the address and it is listed in the end; the list never shrinks - no program deletes files); registration storms hold every channel with room for all addresses that can still appear and read them at the end")
	rec.Assume("big directories are made of empty files named after fixed addresses (only names matter for listing) plus entries that match nothing; a few real key files remain for signing")
	rec.Assume("trusted base: Go race detector, inotify, ref/secp + harness keystore writer (anchored against keystorev3.ReadWalletFile at start-up)")
	k := evid.NewKind(rec, "program", judgeProgram)
	note = rec.Class
	rec.Corpus(t)
	rec.Rapid(t, "programs", rec.N(500, 1500), func(rt *rapid.T) {
		c := genProgram(rt, rec.Thorough())
		nt, cl := classify(c)
		k.Check(rt, c, nt, cl...)
	})
}

func TestReplay(t *testing.T) {
	rec := evid.Start("C17", rule)
	setup(t)
	evid.NewKind(rec, "program", judgeProgram)
	rec.Replay(t)
}
