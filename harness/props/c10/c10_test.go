// Package c10 decides property C10: recovering a signer from arbitrary raw
// transaction bytes is total (never panics) and sound (an address is only
// returned together with a payload over which the signature contained in the
// input verifies for exactly that address, the payload is the preimage of the
// returned fields, and a type-0x02 chain-id mismatch is refused).
//
// Inputs are built by the REFERENCE signer (ref/secp + ref/rlpref via txmodel),
// mutated on the RLP tree and re-signed so that the soundness clauses are
// exercised on inputs the library accepts; the verdict uses only the reference.
package c10

import (
	"bytes"
	"context"
	"encoding/hex"
	"fmt"
	"math/big"
	"testing"

	"github.com/hyperledger/firefly-signer/pkg/ethsigner"
	"github.com/hyperledger/firefly-signer/pkg/ethtypes"
	"github.com/sirupsen/logrus"
	"pgregory.net/rapid"

	"verifharness/evid"
	"verifharness/gen"
	"verifharness/ref/rlpref"
	"verifharness/ref/secp"
	"verifharness/txmodel"
)

const rule = "an input is non-trivial when the library accepts it (returns an address or a decoded payload), or rejects it although it is a well-formed RLP list (the reference's lenient decoder can follow it) — i.e. the rejection is a semantic one, past RLP decoding; distinct by hash of (bytes, chain id)"

type Case struct {
	Raw     string `json:"raw"`
	ChainID int64  `json:"chainId"`
}

func short(b []byte) string {
	if len(b) > 70 {
		return fmt.Sprintf("%x…(%d bytes)", b[:70], len(b))
	}
	return fmt.Sprintf("%x", b)
}

type outcome struct {
	accepted     bool
	semanticReje bool
}

func numEq(h *ethtypes.HexInteger, it rlpref.Item) bool {
	if it.IsList {
		return false
	}
	return h.BigInt().Cmp(new(big.Int).SetBytes(it.Str)) == 0
}

// checkFields compares the returned fields with list elements el (either the
// elements of the returned payload or those of the input), offset per form.
func checkFields(what string, tx *ethsigner.Transaction, el []rlpref.Item, is1559 bool) (vs []evid.Violation) {
	bad := func(f string, i int) {
		var e string
		if el[i].IsList {
			e = "a list"
		} else {
			e = fmt.Sprintf("%x", el[i].Str)
		}
		vs = append(vs, evid.V("fields-match-"+what, "%s: returned field does not equal element %d of the %s (%s)", f, i, what, e))
	}
	var iTo, iVal, iData, iGas int
	if is1559 {
		if !numEq(tx.Nonce, el[1]) {
			bad("nonce", 1)
		}
		if !numEq(tx.MaxPriorityFeePerGas, el[2]) {
			bad("maxPriorityFeePerGas", 2)
		}
		if !numEq(tx.MaxFeePerGas, el[3]) {
			bad("maxFeePerGas", 3)
		}
		iGas, iTo, iVal, iData = 4, 5, 6, 7
	} else {
		if !numEq(tx.Nonce, el[0]) {
			bad("nonce", 0)
		}
		if !numEq(tx.GasPrice, el[1]) {
			bad("gasPrice", 1)
		}
		iGas, iTo, iVal, iData = 2, 3, 4, 5
	}
	if !numEq(tx.GasLimit, el[iGas]) {
		bad("gas", iGas)
	}
	if !numEq(tx.Value, el[iVal]) {
		bad("value", iVal)
	}
	switch {
	case el[iTo].IsList:
		bad("to", iTo)
	case tx.To == nil && len(el[iTo].Str) != 0:
		bad("to(nil)", iTo)
	case tx.To != nil && !bytes.Equal(tx.To[:], el[iTo].Str):
		bad("to", iTo)
	}
	if el[iData].IsList || !bytes.Equal(tx.Data, el[iData].Str) {
		bad("data", iData)
	}
	return vs
}

func isEmptyStr(it rlpref.Item) bool { return !it.IsList && len(it.Str) == 0 }

// judgeAccepted checks the soundness clauses for an accepted recovery.
func judgeAccepted(entry string, raw []byte, chainID int64, addr *ethtypes.Address0xHex, res *ethsigner.TransactionWithOriginalPayload) (vs []evid.Violation) {
	if addr == nil || res == nil || res.Transaction == nil {
		return append(vs, evid.V("result-complete", "%s: nil error but address/transaction missing", entry))
	}
	is1559 := len(raw) > 0 && raw[0] == 0x02 && entry != "RecoverLegacyRawTransaction"
	if chainID < 0 {
		// no transaction is valid for a negative chain id. A type-0x02 transaction embeds an unsigned
		// chain id, which can never equal it: acceptance breaks the statement's refusal clause. What a
		// legacy transaction means under a negative chain id is not specified anywhere: not judged.
		if is1559 {
			return append(vs, evid.V("chainid-mismatch-refused", "%s: type-0x02 transaction accepted for the supplied chain id %d", entry, chainID))
		}
		return nil
	}
	body := raw
	if is1559 {
		body = raw[1:]
	}
	in, _, derr := rlpref.Decode(body, false)
	if derr != nil || !in.IsList {
		return append(vs, evid.V("accepted-wellformed", "%s accepted an input the reference cannot read as an RLP list (%v): %s", entry, derr, short(raw)))
	}
	el := in.List
	minLen := 9
	if is1559 {
		minLen = 12
	}
	if len(el) < minLen {
		return append(vs, evid.V("accepted-arity", "%s accepted %d elements (< %d)", entry, len(el), minLen))
	}
	vI, rI, sI := el[minLen-3], el[minLen-2], el[minLen-1]
	if vI.IsList || rI.IsList || sI.IsList {
		return append(vs, evid.V("signature-elements", "%s accepted a list-typed V/R/S element", entry))
	}
	v := new(big.Int).SetBytes(vI.Str)
	r := new(big.Int).SetBytes(rI.Str)
	s := new(big.Int).SetBytes(sI.Str)

	// the returned payload must be the preimage structure for the form, made of the input's own elements
	payload := res.Payload
	var pl rlpref.Item
	var perr error
	var form string
	if is1559 {
		if len(payload) == 0 || payload[0] != 0x02 {
			return append(vs, evid.V("payload-form", "%s: EIP-1559 payload does not start with 0x02: %s", entry, short(payload)))
		}
		var n int
		pl, n, perr = rlpref.Decode(payload[1:], true)
		if perr == nil && n != len(payload)-1 {
			perr = fmt.Errorf("trailing bytes")
		}
		form = "eip1559"
	} else {
		var n int
		pl, n, perr = rlpref.Decode(payload, true)
		if perr == nil && n != len(payload) {
			perr = fmt.Errorf("trailing bytes")
		}
	}
	if perr != nil || !pl.IsList {
		return append(vs, evid.V("payload-form", "%s: returned payload is not one canonical RLP list (%v): %s", entry, perr, short(payload)))
	}
	p := pl.List
	if !is1559 {
		switch len(p) {
		case 6:
			form = "legacy-original"
		case 9:
			form = "eip155"
			if p[6].IsList || new(big.Int).SetBytes(p[6].Str).Cmp(big.NewInt(chainID)) != 0 || !isEmptyStr(p[7]) || !isEmptyStr(p[8]) {
				vs = append(vs, evid.V("payload-eip155-tail", "%s: EIP-155 payload must end with [chainId=%d, \"\", \"\"]", entry, chainID))
			}
		default:
			return append(vs, evid.V("payload-form", "%s: legacy payload with %d elements (want 6 or 9)", entry, len(p)))
		}
		for i := 0; i < 6; i++ {
			if !rlpref.Equal(p[i], el[i]) {
				vs = append(vs, evid.V("payload-from-input", "%s: payload element %d differs from the input's element", entry, i))
			}
		}
	} else {
		if len(p) != 9 {
			return append(vs, evid.V("payload-form", "%s: EIP-1559 payload with %d elements (want 9)", entry, len(p)))
		}
		for i := 0; i < 9; i++ {
			if !rlpref.Equal(p[i], el[i]) {
				vs = append(vs, evid.V("payload-from-input", "%s: payload element %d differs from the input's element", entry, i))
			}
		}
		if p[0].IsList || new(big.Int).SetBytes(p[0].Str).Cmp(big.NewInt(chainID)) != 0 {
			vs = append(vs, evid.V("chainid-mismatch-refused", "%s: type-0x02 transaction with embedded chain id %x accepted for supplied chain id %d", entry, p[0].Str, chainID))
		}
	}
	// returned fields == payload elements (the payload is the preimage of the returned fields)
	vs = append(vs, checkFields("payload", res.Transaction, p, is1559)...)

	// the signature in the input verifies over keccak256(payload) for exactly the returned address
	hash := secp.Keccak256(payload)
	var parities []uint
	switch form {
	case "legacy-original":
		if v.Cmp(big.NewInt(27)) == 0 {
			parities = []uint{0}
		} else if v.Cmp(big.NewInt(28)) == 0 {
			parities = []uint{1}
		}
	case "eip155":
		for par := uint(0); par <= 1; par++ {
			if v.Cmp(txmodel.V(txmodel.ModeEIP155, chainID, par)) == 0 {
				parities = []uint{par}
			}
		}
	case "eip1559":
		if v.Sign() == 0 {
			parities = []uint{0}
		} else if v.Cmp(big.NewInt(1)) == 0 {
			parities = []uint{1}
		}
	}
	if parities == nil {
		parities = []uint{0, 1} // V is not a specification value for this form: not asserted which parity it stands for
	}
	ok := false
	for _, par := range parities {
		if a, rok := secp.RecoverAddress(hash, r, s, par); rok && bytes.Equal(a[:], addr[:]) {
			ok = true
		}
	}
	if !ok {
		vs = append(vs, evid.V("signature-verifies", "%s: returned address %x, but the input's (R=%x, S=%x, V=%s) does not recover to it over keccak256(returned payload) [form %s]", entry, addr[:], r, s, v, form))
	}
	return vs
}

func resultSnapshot(addr *ethtypes.Address0xHex, res *ethsigner.TransactionWithOriginalPayload) string {
	if addr == nil || res == nil || res.Transaction == nil {
		return "nil"
	}
	f := func(h *ethtypes.HexInteger) string {
		if h == nil {
			return "nil"
		}
		return h.BigInt().String()
	}
	to := "nil"
	if res.To != nil {
		to = hex.EncodeToString(res.To[:])
	}
	return fmt.Sprintf("addr=%x n=%s gp=%s tip=%s cap=%s gas=%s val=%s to=%s data=%x payload=%x", addr[:], f(res.Nonce), f(res.GasPrice), f(res.MaxPriorityFeePerGas), f(res.MaxFeePerGas), f(res.GasLimit), f(res.Value), to, []byte(res.Data), res.Payload)
}

func judgeRaw(raw []byte, chainID int64) (vs []evid.Violation, out outcome) {
	ctx := context.Background()
	type rec func(context.Context, ethtypes.HexBytes0xPrefix, int64) (*ethtypes.Address0xHex, *ethsigner.TransactionWithOriginalPayload, error)
	entries := []struct {
		name string
		f    rec
	}{
		{"RecoverRawTransaction", ethsigner.RecoverRawTransaction},
		{"RecoverLegacyRawTransaction", ethsigner.RecoverLegacyRawTransaction},
		{"RecoverEIP1559Transaction", ethsigner.RecoverEIP1559Transaction},
	}
	_, _, lenientErr := rlpref.Decode(raw, false)
	if len(raw) > 0 && raw[0] == 0x02 {
		_, _, lenientErr = rlpref.Decode(raw[1:], false)
	}
	for _, e := range entries {
		var addr *ethtypes.Address0xHex
		var res *ethsigner.TransactionWithOriginalPayload
		var err error
		cp := append([]byte{}, raw...)
		if pv := evid.Guard("no-panic", func() { addr, res, err = e.f(ctx, cp, chainID) }); pv != nil {
			pv.Detail = e.name + ": " + pv.Detail
			vs = append(vs, *pv)
			continue
		}
		if !bytes.Equal(cp, raw) {
			vs = append(vs, evid.V("input-unmodified", "%s modified its input", e.name))
		}
		if err != nil {
			if addr != nil {
				vs = append(vs, evid.V("error-xor-address", "%s returned both an error and an address", e.name))
			}
			if lenientErr == nil {
				out.semanticReje = true
			}
			continue
		}
		out.accepted = true
		vs = append(vs, judgeAccepted(e.name, raw, chainID, addr, res)...)
		// Not asserted: that the result is independent of the input buffer of the SAME call (a zero-copy view is a
		// legitimate design and the statement speaks of the value returned); see DESIGN.md 7.4.
	}
	// signature-less decode of an EIP-1559 payload
	var tx *ethsigner.Transaction
	var err error
	if pv := evid.Guard("no-panic", func() { tx, err = ethsigner.DecodeEIP1559SignaturePayload(ctx, append([]byte{}, raw...), chainID) }); pv != nil {
		pv.Detail = "DecodeEIP1559SignaturePayload: " + pv.Detail
		vs = append(vs, *pv)
	} else if err == nil {
		out.accepted = true
		if tx == nil || len(raw) == 0 || raw[0] != 0x02 {
			vs = append(vs, evid.V("decode1559-shape", "DecodeEIP1559SignaturePayload accepted %s", short(raw)))
		} else if in, _, derr := rlpref.Decode(raw[1:], false); derr != nil || !in.IsList || len(in.List) < 9 {
			vs = append(vs, evid.V("decode1559-shape", "DecodeEIP1559SignaturePayload accepted an input that is not a list of >= 9 elements: %s", short(raw)))
		} else {
			if chainID < 0 || in.List[0].IsList || new(big.Int).SetBytes(in.List[0].Str).Cmp(big.NewInt(chainID)) != 0 {
				vs = append(vs, evid.V("chainid-mismatch-refused", "DecodeEIP1559SignaturePayload: embedded chain id accepted for supplied %d", chainID))
			}
			vs = append(vs, checkFields("input", tx, in.List, true)...)
		}
	}
	return vs, out
}

// ---- kind "history": several recoveries in one process; every result handed out earlier must
// still read the same after the later calls (no pooled / shared buffers behind results).

type SeqCase struct {
	Steps []Case `json:"steps"`
}

func judgeSeq(c SeqCase) (vs []evid.Violation) {
	ctx := context.Background()
	type kept struct {
		addr *ethtypes.Address0xHex
		res  *ethsigner.TransactionWithOriginalPayload
		snap string
		step int
	}
	var keep []kept
	for i, st := range c.Steps {
		raw, err := hex.DecodeString(st.Raw)
		if err != nil {
			continue
		}
		if jv := judgePure(st); len(jv) > 0 {
			return append(vs, evid.V("history:"+jv[0].Clause, "step %d: %s", i, jv[0].Detail))
		}
		var addr *ethtypes.Address0xHex
		var res *ethsigner.TransactionWithOriginalPayload
		if pv := evid.Guard("no-panic", func() { addr, res, err = ethsigner.RecoverRawTransaction(ctx, raw, st.ChainID) }); pv != nil {
			return append(vs, *pv)
		}
		if err == nil && addr != nil && res != nil {
			keep = append(keep, kept{addr: addr, res: res, snap: resultSnapshot(addr, res), step: i})
		}
	}
	for _, k := range keep {
		if now := resultSnapshot(k.addr, k.res); now != k.snap {
			vs = append(vs, evid.V("result-stable-across-calls", "the result of step %d reads differently after %d later recoveries:\n was %s\n now %s", k.step, len(c.Steps)-1-k.step, k.snap, now))
		}
	}
	return vs
}

// judgePure is judge without the classification side channel (safe for concurrent use).
func judgePure(c Case) []evid.Violation {
	raw, err := hex.DecodeString(c.Raw)
	if err != nil {
		return []evid.Violation{evid.V("harness", "bad hex")}
	}
	vs, _ := judgeRaw(raw, c.ChainID)
	return vs
}

// lastOutcome is the classification of the most recent judge call (single-threaded use).
var lastOutcome outcome

func judge(c Case) []evid.Violation {
	raw, err := hex.DecodeString(c.Raw)
	if err != nil {
		return []evid.Violation{evid.V("harness", "bad hex")}
	}
	vs, out := judgeRaw(raw, c.ChainID)
	lastOutcome = out
	return vs
}

// ---- generation: reference-signed transactions and their mutants

type built struct {
	prefix []byte        // type byte(s) in front of the list
	items  []rlpref.Item // top-level list elements
	mode   string
	key    *big.Int
	k      *big.Int
	chain  int64 // chain id embedded / used for V
	labels []string
}

func (b *built) bytes() []byte {
	return append(append([]byte{}, b.prefix...), rlpref.Encode(rlpref.L(b.items...))...)
}

// payloadFor is what the specification (and a lenient reader) takes as the signed
// preimage of the CURRENT elements under chain id c.
func (b *built) payloadFor(c int64) []byte {
	switch b.mode {
	case txmodel.ModeLegacy:
		return rlpref.Encode(rlpref.L(first(b.items, 6)...))
	case txmodel.ModeEIP155:
		f := append(first(b.items, 6), rlpref.Int(big.NewInt(c)), rlpref.S(nil), rlpref.S(nil))
		return rlpref.Encode(rlpref.L(f...))
	default:
		return append([]byte{0x02}, rlpref.Encode(rlpref.L(first(b.items, 9)...))...)
	}
}

func first(items []rlpref.Item, n int) []rlpref.Item {
	if len(items) < n {
		n = len(items)
	}
	return append([]rlpref.Item{}, items[:n]...)
}

// resign recomputes V,R,S over the current elements so the signature verifies.
func (b *built) resign() bool {
	n := 6
	if b.mode == txmodel.ModeEIP1559 {
		n = 9
	}
	if len(b.items) < n {
		return false
	}
	h := secp.Keccak256(b.payloadFor(b.chain))
	r, s, par, ok := secp.Sign(b.key, h, b.k)
	if !ok {
		return false
	}
	v := txmodel.V(b.mode, b.chain, par)
	b.items = append(first(b.items, n), rlpref.Int(v), rlpref.Int(r), rlpref.Int(s))
	return true
}

func optInt(rt *rapid.T, label string) *string {
	if rapid.IntRange(0, 9).Draw(rt, label+".absent") == 0 {
		return nil
	}
	s := gen.Uint(rt, label, 256).String()
	return &s
}

func genBuilt(rt *rapid.T) *built {
	var t txmodel.Tx
	t.Nonce, t.GasPrice, t.Gas, t.Value = optInt(rt, "nonce"), optInt(rt, "gasPrice"), optInt(rt, "gas"), optInt(rt, "value")
	t.Tip, t.FeeCap = optInt(rt, "tip"), optInt(rt, "cap")
	if rapid.IntRange(0, 3).Draw(rt, "to.absent") != 0 {
		s := gen.HexBytes(rt, "to", 20)
		t.To = &s
	}
	maxData := 2000
	if rapid.IntRange(0, 11).Draw(rt, "data.big") == 0 {
		maxData = 64000 // inputs up to 64 KiB (the quantifier's bound)
	}
	dl := gen.Len(rt, "data.len", maxData)
	ds := gen.HexBytes(rt, "data", dl)
	t.Data = &ds
	mode := rapid.SampledFrom([]string{txmodel.ModeLegacy, txmodel.ModeEIP155, txmodel.ModeEIP1559}).Draw(rt, "mode")
	chain := rapid.SampledFrom([]int64{0, 1, 1337, 110, 111, 1 << 31, 1 << 53}).Draw(rt, "chain")
	key := new(big.Int).SetBytes(rapid.SliceOfN(rapid.Byte(), 1, 32).Draw(rt, "key"))
	key.Mod(key, new(big.Int).Sub(secp.N, big.NewInt(1))).Add(key, big.NewInt(1))
	k := new(big.Int).SetBytes(rapid.SliceOfN(rapid.Byte(), 1, 32).Draw(rt, "k"))
	k.Mod(k, new(big.Int).Sub(secp.N, big.NewInt(1))).Add(k, big.NewInt(1))
	_, v, r, s, ok := t.RefSign(mode, chain, key, k)
	if !ok {
		rt.Skip("degenerate nonce")
	}
	b := &built{mode: mode, key: key, k: k, chain: chain, items: t.WireItems(mode, chain, v, r, s)}
	if mode == txmodel.ModeEIP1559 {
		b.prefix = []byte{0x02}
	}
	return b
}

func genElement(rt *rapid.T, label string) rlpref.Item {
	switch rapid.IntRange(0, 7).Draw(rt, label+".kind") {
	case 0:
		return rlpref.L()
	case 1:
		return rlpref.L(rlpref.S([]byte{1}), rlpref.L())
	case 2:
		return rlpref.S(nil)
	case 3:
		return rlpref.S(gen.Bytes(rt, label+".long", rapid.IntRange(33, 40).Draw(rt, label+".longlen")))
	case 4:
		return rlpref.S(gen.Bytes(rt, label+".addrish", rapid.SampledFrom([]int{19, 21, 20, 1, 32, 39, 40, 41, 60}).Draw(rt, label+".alen")))
	case 5:
		return rlpref.S(append([]byte{0}, gen.Bytes(rt, label+".lz", rapid.IntRange(0, 8).Draw(rt, label+".lzlen"))...))
	case 6:
		return rlpref.Int(gen.Uint(rt, label+".int", 256))
	default:
		return rlpref.L(rlpref.S(gen.Bytes(rt, label+".addr", 20)), rlpref.L(rlpref.S(gen.Bytes(rt, label+".slot", 32))))
	}
}

// mutate applies 1..3 structure-aware mutations and returns the raw bytes, the chain
// id to supply and labels for the histogram.
func mutate(rt *rapid.T, b *built) (raw []byte, supplied int64, labels []string) {
	supplied = b.chain
	nm := rapid.IntRange(0, 3).Draw(rt, "nmut")
	sigStart := 6
	if b.mode == txmodel.ModeEIP1559 {
		sigStart = 9
	}
	rawOverride := []byte(nil)
	for m := 0; m < nm; m++ {
		lbl := fmt.Sprintf("m%d", m)
		op := rapid.IntRange(0, 13).Draw(rt, lbl+".op")
		switch op {
		case 0: // replace a signed field, then re-sign so the signature still verifies
			i := rapid.IntRange(0, sigStart-1).Draw(rt, lbl+".i")
			if rapid.IntRange(0, 3).Draw(rt, lbl+".toSlot") == 0 {
				i = 3 // the `to` slot (legacy layout; index 5 for type 2)
				if b.mode == txmodel.ModeEIP1559 {
					i = 5
				}
			}
			if i < len(b.items) {
				b.items[i] = genElement(rt, lbl+".e")
				if b.mode == txmodel.ModeEIP1559 && i == 0 && rapid.Bool().Draw(rt, lbl+".keepchain") {
					b.items[0] = rlpref.Int(big.NewInt(b.chain))
				}
				b.resign()
				labels = append(labels, "mut:field-replaced+resigned")
			}
		case 1: // replace a field WITHOUT re-signing
			if len(b.items) > 0 {
				i := rapid.IntRange(0, len(b.items)-1).Draw(rt, lbl+".i")
				b.items[i] = genElement(rt, lbl+".e")
				labels = append(labels, "mut:element-replaced")
			}
		case 2: // drop an element
			if len(b.items) > 0 {
				i := rapid.IntRange(0, len(b.items)-1).Draw(rt, lbl+".i")
				b.items = append(b.items[:i:i], b.items[i+1:]...)
				labels = append(labels, "mut:element-dropped")
			}
		case 3: // add an element (anywhere / at the end)
			i := len(b.items)
			if rapid.Bool().Draw(rt, lbl+".inside") {
				i = rapid.IntRange(0, len(b.items)).Draw(rt, lbl+".i")
			}
			e := genElement(rt, lbl+".e")
			b.items = append(b.items[:i:i], append([]rlpref.Item{e}, b.items[i:]...)...)
			labels = append(labels, "mut:element-added")
		case 4: // R or S of 0..40 bytes
			if len(b.items) >= sigStart+3 {
				i := sigStart + 1 + rapid.IntRange(0, 1).Draw(rt, lbl+".rs")
				n := rapid.IntRange(0, 40).Draw(rt, lbl+".n")
				switch rapid.IntRange(0, 2).Draw(rt, lbl+".how") {
				case 0: // left-pad the genuine value with zeros (numerically the same signature)
					cur := b.items[i].Str
					if n > len(cur) {
						b.items[i] = rlpref.S(append(make([]byte, n-len(cur)), cur...))
					}
				default:
					b.items[i] = rlpref.S(gen.Bytes(rt, lbl+".rsb", n))
				}
				labels = append(labels, "mut:R/S-length")
			}
		case 5: // V arbitrary
			if len(b.items) >= sigStart+1 {
				var v rlpref.Item
				switch rapid.IntRange(0, 5).Draw(rt, lbl+".vkind") {
				case 0:
					v = rlpref.L()
				case 1:
					v = rlpref.Int(new(big.Int).Add(gen.Pow2(64), big.NewInt(int64(rapid.IntRange(0, 40).Draw(rt, lbl+".v64")))))
				case 2:
					v = rlpref.Int(big.NewInt(int64(rapid.IntRange(0, 300).Draw(rt, lbl+".vsmall"))))
				case 3: // another convention's V with the right parity
					cur := new(big.Int).SetBytes(b.items[sigStart].Str)
					par := uint(0)
					if cur.Cmp(txmodel.V(b.mode, b.chain, 1)) == 0 {
						par = 1
					}
					m2 := rapid.SampledFrom([]string{txmodel.ModeLegacy, txmodel.ModeEIP155, txmodel.ModeEIP1559}).Draw(rt, lbl+".vconv")
					v = rlpref.Int(txmodel.V(m2, b.chain, par))
				case 4:
					v = rlpref.S(gen.Bytes(rt, lbl+".vbytes", rapid.IntRange(0, 12).Draw(rt, lbl+".vlen")))
				default:
					v = rlpref.Int(gen.Uint(rt, lbl+".vint", 80))
				}
				b.items[sigStart] = v
				labels = append(labels, "mut:V")
			}
		case 6: // type byte
			switch rapid.IntRange(0, 3).Draw(rt, lbl+".tb") {
			case 0:
				b.prefix = nil
			case 1:
				b.prefix = []byte{0x02}
			case 2:
				b.prefix = []byte{rapid.SampledFrom([]byte{0x00, 0x01, 0x03, 0x7f, 0x80, 0xc0, 0xc7, 0xf8, 0xff}).Draw(rt, lbl+".tbv")}
			default:
				b.prefix = []byte{0x02, 0x02}
			}
			labels = append(labels, "mut:type-byte")
		case 7: // chain id: supplied differs from embedded
			// "any chain id": negative values are int64 inputs too (no transaction is valid for them)
			supplied = rapid.SampledFrom([]int64{0, 1, 2, 1337, 1338, 110, 111, 1 << 31, 1 << 53, b.chain + 1, b.chain + 128, -1, -2, -b.chain, -1 << 63}).Draw(rt, lbl+".supplied")
			labels = append(labels, "mut:supplied-chainid")
		case 8: // embedded chain id changed and re-signed (type 2) – a genuine signature for another chain
			if b.mode == txmodel.ModeEIP1559 && len(b.items) >= 9 {
				emb := big.NewInt(rapid.SampledFrom([]int64{0, 1, 2, 1337, 1 << 31}).Draw(rt, lbl+".embedded"))
				if rapid.Bool().Draw(rt, lbl+".alias") {
					// a different integer that agrees with the supplied chain id in its low 64 (or 63, 32) bits
					emb = new(big.Int).Add(big.NewInt(b.chain), gen.Pow2(uint(rapid.SampledFrom([]int{32, 63, 64, 65, 128}).Draw(rt, lbl+".aliasbit"))))
				}
				b.items[0] = rlpref.Int(emb)
				b.resign()
				labels = append(labels, "mut:embedded-chainid+resigned")
			}
		case 9: // truncate / extend the final bytes
			raw := b.bytes()
			if rapid.Bool().Draw(rt, lbl+".trunc") && len(raw) > 0 {
				rawOverride = raw[:rapid.IntRange(0, len(raw)-1).Draw(rt, lbl+".cut")]
				labels = append(labels, "mut:truncated")
			} else {
				rawOverride = append(raw, gen.Bytes(rt, lbl+".ext", rapid.IntRange(1, 8).Draw(rt, lbl+".extn"))...)
				labels = append(labels, "mut:trailing-bytes")
			}
		case 10: // non-canonical outer length (long form with leading zeros)
			payload := []byte{}
			for _, it := range b.items {
				payload = append(payload, rlpref.Encode(it)...)
			}
			kk := rapid.IntRange(1, 8).Draw(rt, lbl+".lol")
			lb := make([]byte, kk)
			n := len(payload)
			for i := kk - 1; i >= 0 && n > 0; i-- {
				lb[i] = byte(n)
				n >>= 8
			}
			if n == 0 {
				rawOverride = append(append(append([]byte{}, b.prefix...), append([]byte{0xf7 + byte(kk)}, lb...)...), payload...)
				labels = append(labels, "mut:noncanonical-length")
			}
		case 11: // malleated signature: S -> n-S, with or without the matching parity flip of V
			if len(b.items) >= sigStart+3 && !b.items[sigStart].IsList && !b.items[sigStart+2].IsList {
				sv := new(big.Int).SetBytes(b.items[sigStart+2].Str)
				if secp.ValidScalar(sv) {
					b.items[sigStart+2] = rlpref.Int(new(big.Int).Sub(secp.N, sv))
					if rapid.Bool().Draw(rt, lbl+".flipV") {
						cur := new(big.Int).SetBytes(b.items[sigStart].Str)
						for par := uint(0); par <= 1; par++ {
							if cur.Cmp(txmodel.V(b.mode, b.chain, par)) == 0 {
								b.items[sigStart] = rlpref.Int(txmodel.V(b.mode, b.chain, par^1))
								break
							}
						}
						labels = append(labels, "mut:high-S-twin")
					} else {
						labels = append(labels, "mut:high-S-same-V")
					}
				}
			}
		case 12: // type 2: odd shapes in the chain-id slot, re-signed, typically offered for chain id 0
			if b.mode == txmodel.ModeEIP1559 && len(b.items) >= 9 {
				switch rapid.IntRange(0, 4).Draw(rt, lbl+".cshape") {
				case 0:
					b.items[0] = rlpref.L()
				case 1:
					b.items[0] = rlpref.L(rlpref.S([]byte{1}))
				case 2:
					b.items[0] = rlpref.S([]byte{0})
				case 3:
					b.items[0] = rlpref.S(append([]byte{0}, big.NewInt(b.chain).Bytes()...))
				default:
					b.items[0] = rlpref.L(rlpref.S(nil))
				}
				b.resign()
				if rapid.IntRange(0, 2).Draw(rt, lbl+".zero") != 0 {
					supplied = 0
				}
				labels = append(labels, "mut:chainid-slot-shape+resigned")
			}
		default: // switch the form under the same signature elements (legacy <-> 1559 confusion)
			if b.mode == txmodel.ModeEIP1559 {
				b.prefix = nil
			} else {
				b.prefix = []byte{0x02}
			}
			labels = append(labels, "mut:form-confusion")
		}
	}
	if rawOverride != nil {
		return rawOverride, supplied, labels
	}
	return b.bytes(), supplied, labels
}

func init() {
	// the library logs every rejected input; logging is not under test and dominates the run time
	logrus.SetLevel(logrus.PanicLevel)
}

func TestCheck(t *testing.T) {
	rec := evid.Start("C10", rule)
	defer rec.Finish()
	rec.Assume("oracle: ref/rlpref lenient+strict decoders, ref/secp recovery, txmodel V conventions; inputs are signed by the reference signer")
	rec.Assume("not asserted: rejection of non-canonical RLP/integers, of trailing bytes or extra list elements, of non-empty access lists; which parity a non-specification V stands for")
	k := evid.NewKind(rec, "raw", judge)
	cpool := evid.NewPool(rec, "concurrent", judgePure, 48)
	rec.Corpus(t)

	t.Run("exhaustive<=2B", func(t *testing.T) {
		var n, nt int64
		visit := func(in []byte) {
			for _, chain := range []int64{0, 1, 1337} {
				vs, out := judgeRaw(in, chain)
				n++
				if out.accepted || out.semanticReje {
					nt++
				}
				if len(vs) > 0 {
					k.Fail(t, Case{Raw: hex.EncodeToString(in), ChainID: chain}, vs)
				}
			}
		}
		visit(nil)
		for a := 0; a < 256; a++ {
			visit([]byte{byte(a)})
			for b := 0; b < 256; b++ {
				visit([]byte{byte(a), byte(b)})
			}
		}
		s := Case{Raw: "02c0", ChainID: 1}
		k.Bulk(n, nt, true, "exhaustive<=2B x chain{0,1,1337}", &s)
	})

	rec.Rapid(t, "mutants", rec.N(3000, 30000), func(rt *rapid.T) {
		b := genBuilt(rt)
		raw, supplied, labels := mutate(rt, b)
		if len(raw) > 65536 {
			raw = raw[:65536]
		}
		cl := append(labels, "form:"+b.mode)
		if len(labels) == 0 {
			cl = append(cl, "unmutated")
		}
		k.CheckLazy(rt, Case{Raw: hex.EncodeToString(raw), ChainID: supplied}, func() (bool, []string) {
			out := lastOutcome
			if out.accepted {
				cpool.Offer(Case{Raw: hex.EncodeToString(raw), ChainID: supplied})
				cl = append(cl, "accepted")
			} else if out.semanticReje {
				cl = append(cl, "rejected-semantic")
			} else {
				cl = append(cl, "rejected-rlp")
			}
			return out.accepted || out.semanticReje, cl
		})
	})

	// truncation at EVERY offset of a few reference-signed transactions
	rec.Rapid(t, "truncate-every-offset", rec.N(12, 100), func(rt *rapid.T) {
		b := genBuilt(rt)
		raw := b.bytes()
		if len(raw) > 400 {
			rt.Skip("long")
		}
		for cut := 0; cut <= len(raw); cut++ {
			in := raw[:cut]
			k.CheckLazy(rt, Case{Raw: hex.EncodeToString(in), ChainID: b.chain}, func() (bool, []string) {
				return lastOutcome.accepted || lastOutcome.semanticReje, []string{"truncate-sweep"}
			})
		}
	})
	// histories of recoveries (same form, later payloads no longer than earlier ones included)
	kSeq := evid.NewKind(rec, "history", judgeSeq)
	rec.Rapid(t, "history", rec.N(150, 1500), func(rt *rapid.T) {
		n := rapid.IntRange(2, 5).Draw(rt, "steps")
		var sc SeqCase
		for i := 0; i < n; i++ {
			b := genBuilt(rt)
			if rapid.IntRange(0, 3).Draw(rt, "mutated") == 0 {
				raw, supplied, _ := mutate(rt, b)
				sc.Steps = append(sc.Steps, Case{Raw: hex.EncodeToString(raw), ChainID: supplied})
			} else {
				sc.Steps = append(sc.Steps, Case{Raw: hex.EncodeToString(b.bytes()), ChainID: b.chain})
			}
		}
		kSeq.Check(rt, sc, true, "history")
	})
	// accepted transactions recovered from many goroutines at once: verdicts must not depend on concurrent callers
	cpool.Run(t, 8, 4, 12)
}

func TestReplay(t *testing.T) {
	rec := evid.Start("C10", rule)
	evid.NewKind(rec, "raw", judge)
	evid.NewPool(rec, "concurrent", judgePure, 0)
	evid.NewKind(rec, "history", judgeSeq)
	rec.Replay(t)
}

// FuzzRecover: coverage-guided raw bytes (first byte of the input selects the chain id).
func FuzzRecover(f *testing.F) {
	seeds := []string{
		"", "02", "0280", "02c0", "c0", "c9808080808080808080", "02cc808080808080808080808080",
		"f86c098504a817c800825208943535353535353535353535353535353535353535880de0b6b3a76400008025a028ef61340bd939bc2169fe4ddad1a2e1b1a4e5a9e0b0e2f5e5b5e2a0f5e5b5e2a067cbe9d8997f761aecb703304b3800ccf555c9f3dc64214b297fb1966a3b6d83",
	}
	for _, s := range seeds {
		b, _ := hex.DecodeString(s)
		f.Add(byte(1), b)
	}
	// valid transactions of all three wire forms, signed by the reference signer (chain ids match `chains` below)
	one, big1, to := "1", "340282366920938463463374607431768211456", "00112233445566778899aabbccddeeff00112233"
	data := "a9059cbb" + "00"
	for i, m := range []string{txmodel.ModeLegacy, txmodel.ModeEIP155, txmodel.ModeEIP1559} {
		for sel, chain := range []int64{0, 1, 1337, 111, 1 << 31} {
			tx := txmodel.Tx{Nonce: &one, GasPrice: &big1, Tip: &one, FeeCap: &big1, Gas: &one, Value: &one, To: &to, Data: &data}
			if sel%2 == 1 {
				tx.To = nil
			}
			if w, _, _, _, ok := tx.RefSign(m, chain, big.NewInt(int64(1000+i)), big.NewInt(int64(77+sel))); ok {
				f.Add(byte(sel), w)
			}
		}
	}
	rec := evid.Start("C10", rule)
	k := evid.NewKind(rec, "raw", judge)
	chains := []int64{0, 1, 1337, 111, 1 << 31}
	f.Fuzz(func(t *testing.T, sel byte, in []byte) {
		if len(in) > 65536 {
			return
		}
		chain := chains[int(sel)%len(chains)]
		vs, _ := judgeRaw(in, chain)
		if len(vs) > 0 {
			k.Fail(t, Case{Raw: hex.EncodeToString(in), ChainID: chain}, vs)
		}
	})
}
