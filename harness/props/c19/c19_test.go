// Package c19 decides property C19 (hex/number JSON types parse exactly or fail, and
// print canonically) by generated-input search against the independent numeric-text
// reference in ref/numref.
package c19

import (
	"bytes"
	"context"
	"encoding/hex"
	"encoding/json"
	"fmt"
	"io"
	"math/big"
	"strings"
	"testing"
	"unicode/utf8"

	"github.com/hyperledger/firefly-signer/pkg/ethtypes"
	"github.com/sirupsen/logrus"
	"pgregory.net/rapid"

	"verifharness/evid"
	"verifharness/ref/numref"
)

const rule = "integer texts: the text denotes a number of magnitude >= 2^53, or is an exponent/fraction spelling, or is mixed-case hex; " +
	"values: >= 2^53; addresses/byte strings: mixed-case hex text or a text that must be rejected (wrong length, odd length, non-hex); " +
	"histories: seq with >= 2 exponent/fraction spellings, hexseq in which a later valid text is not longer than an earlier one; every concurrent batch; distinct by hash of the case"

func init() {
	// the library logs every rejected numeric string at error level
	logrus.SetOutput(io.Discard)
	logrus.SetLevel(logrus.PanicLevel)
}

var (
	one    = big.NewInt(1)
	two53  = new(big.Int).Lsh(one, 53)
	two64  = new(big.Int).Lsh(one, 64)
	two256 = new(big.Int).Lsh(one, 256)
)

// ---------------------------------------------------------------------------------------
// kind "int": one numeric text through every parsing entry point
// ---------------------------------------------------------------------------------------

type IntCase struct {
	Text string `json:"text"`
	// TextHex carries a text that is not valid UTF-8 (native fuzzing only); it overrides Text.
	TextHex string `json:"text_hex,omitempty"`
}

func (c IntCase) text() string {
	if c.TextHex != "" {
		b, _ := hex.DecodeString(c.TextHex)
		return string(b)
	}
	return c.Text
}

func intCase(text string) IntCase {
	if utf8.ValidString(text) {
		return IntCase{Text: text}
	}
	return IntCase{TextHex: hex.EncodeToString([]byte(text))}
}

// expensive reports texts whose exponent is so large that merely evaluating them costs
// real memory/time (10^(10^6) ...).  The property's quantifier stops at exponent
// spellings of values below 2^256, so nothing is lost by not running them.
func expensive(text string, d numref.Denotation) bool {
	switch {
	case d.Form == numref.FormFloat:
		return d.Exp.CmpAbs(big.NewInt(5000)) > 0
	case d.Class == numref.Integer:
		return false
	}
	for i := 0; i < len(text); i++ {
		if strings.IndexByte("eEpP", text[i]) < 0 {
			continue
		}
		j := i + 1
		if j < len(text) && (text[j] == '+' || text[j] == '-') {
			j++
		}
		n := 0
		for j < len(text) && (text[j] == '_' || (text[j] >= '0' && text[j] <= '9')) {
			j++
			n++
		}
		if n >= 5 {
			return true
		}
	}
	return false
}

// channel describes one parsing entry point: lo0 = results must be >= 0, hiBits = results
// must be < 2^hiBits (0 = unbounded).
type channel struct {
	name   string
	lo0    bool
	hiBits int
	call   func() (*big.Int, error)
}

func inRange(v *big.Int, ch channel) bool {
	if ch.lo0 && v.Sign() < 0 {
		return false
	}
	if ch.hiBits > 0 && v.BitLen() > ch.hiBits {
		return false
	}
	return true
}

func shortText(s string) string {
	if len(s) > 200 {
		return fmt.Sprintf("%q…(%d bytes)", s[:200], len(s))
	}
	return fmt.Sprintf("%q", s)
}

// mustAccept: the spellings every conforming parser has to take.
func mustAccept(d numref.Denotation, ch channel) bool {
	if d.Class != numref.Integer || d.Huge || d.Value == nil || !inRange(d.Value, ch) {
		return false
	}
	if d.Neg && d.Value.Sign() == 0 {
		return false // spellings of negative zero: acceptance not required
	}
	if d.Form == numref.FormFloat {
		return d.Digits <= 60 && d.AbsBelowPow2(256) && d.Exp.CmpAbs(big.NewInt(1000)) <= 0
	}
	return true
}

// judgeChannel applies the oracle to the outcome of one entry point.
func judgeChannel(vs []evid.Violation, text string, d numref.Denotation, ch channel) ([]evid.Violation, *big.Int) {
	var got *big.Int
	var err error
	if pv := evid.Guard(ch.name+":no-panic", func() { got, err = ch.call() }); pv != nil {
		pv.Detail = "text " + shortText(text) + ": " + pv.Detail
		return append(vs, *pv), nil
	}
	accepted := err == nil
	if accepted && got == nil {
		return append(vs, evid.V(ch.name+":value-present", "text %s: nil value with nil error", shortText(text))), nil
	}
	if accepted && !inRange(got, ch) {
		return append(vs, evid.V(ch.name+":result-in-range", "text %s: accepted as %s, outside the range of the type", shortText(text), got)), nil
	}
	switch d.Class {
	case numref.Integer:
		if d.Huge || d.Value == nil {
			return vs, nil
		}
		exactAsserted := d.Form != numref.FormFloat || d.AbsBelowPow2(256)
		if accepted {
			if !exactAsserted {
				return vs, nil // exponent/fraction spelling of a value >= 2^256: outside the quantifier
			}
			if !inRange(d.Value, ch) {
				how := "accepted"
				if ch.hiBits > 0 && new(big.Int).Mod(d.Value, new(big.Int).Lsh(one, uint(ch.hiBits))).Cmp(got) == 0 {
					how = "wrapped"
				}
				return append(vs, evid.V(ch.name+":out-of-range-rejected", "text %s denotes %s which is out of range, but was %s as %s", shortText(text), d.Value, how, got)), nil
			}
			if got.Cmp(d.Value) != 0 {
				return append(vs, evid.V(ch.name+":exact-value", "text %s denotes %s but parsed as %s", shortText(text), d.Value, got)), nil
			}
			return vs, got
		}
		if mustAccept(d, ch) {
			return append(vs, evid.V(ch.name+":accept-valid", "text %s denotes the in-range integer %s (%s spelling, %d mantissa digits) but was rejected: %v", shortText(text), d.Value, d.Form, d.Digits, err)), nil
		}
	case numref.NotInteger:
		if accepted && d.AbsBelowPow2(256) {
			return append(vs, evid.V(ch.name+":fraction-rejected", "text %s denotes a non-integer but was accepted as %s (rounded)", shortText(text), got)), nil
		}
	case numref.Malformed:
		if accepted {
			return append(vs, evid.V(ch.name+":malformed-rejected", "text %s denotes no number (%s) but was accepted as %s", shortText(text), d.Reason, got)), nil
		}
	}
	return vs, nil
}

// unmarshalOwned is json.Unmarshal on a private copy of doc that the caller overwrites as soon as the
// call returns: whatever the target holds afterwards cannot live in the caller's bytes.
func unmarshalOwned(doc []byte, target interface{}) error {
	buf := append(make([]byte, 0, len(doc)+16), doc...)
	err := json.Unmarshal(buf, target)
	for i := range buf {
		buf[i] = 'Z'
	}
	return err
}

func hexIntegerFrom(doc []byte) (*big.Int, *ethtypes.HexInteger, error) {
	var h ethtypes.HexInteger
	if err := unmarshalOwned(doc, &h); err != nil {
		return nil, nil, err
	}
	return new(big.Int).Set(h.BigInt()), &h, nil
}

func hexUint64From(doc []byte) (*big.Int, *ethtypes.HexUint64, error) {
	var u ethtypes.HexUint64
	if err := unmarshalOwned(doc, &u); err != nil {
		return nil, nil, err
	}
	return new(big.Int).SetUint64(u.Uint64()), &u, nil
}

// jsonChannels runs doc (a JSON string or number whose content is text/d) through both
// integer types and checks that what was accepted prints canonically.
func jsonChannels(vs []evid.Violation, via string, text string, d numref.Denotation, doc []byte) []evid.Violation {
	var hi *ethtypes.HexInteger
	vs, v := judgeChannel(vs, text, d, channel{name: "HexInteger/" + via, lo0: true, call: func() (*big.Int, error) {
		var v *big.Int
		var err error
		v, hi, err = hexIntegerFrom(doc)
		return v, err
	}})
	if v != nil && hi != nil {
		if got, want := hi.String(), numref.Hex0x(v); got != want {
			vs = append(vs, evid.V("HexInteger:canonical-string", "parsed %s from %s prints %q, want %q", v, shortText(text), got, want))
		}
	}
	var hu *ethtypes.HexUint64
	vs, v = judgeChannel(vs, text, d, channel{name: "HexUint64/" + via, lo0: true, hiBits: 64, call: func() (*big.Int, error) {
		var v *big.Int
		var err error
		v, hu, err = hexUint64From(doc)
		return v, err
	}})
	if v != nil && hu != nil {
		if got, want := hu.String(), numref.Hex0x(v); got != want {
			vs = append(vs, evid.V("HexUint64:canonical-string", "parsed %s from %s prints %q, want %q", v, shortText(text), got, want))
		}
	}
	return vs
}

// quote renders text as a JSON string document and returns the text a JSON reader sees
// (identical unless the text is not valid UTF-8).
func quote(text string) (doc []byte, seen string) {
	doc, _ = json.Marshal(text)
	if utf8.ValidString(text) {
		return doc, text
	}
	_ = json.Unmarshal(doc, &seen)
	return doc, seen
}

func judgeInt(c IntCase) (vs []evid.Violation) {
	return judgeIntText(c.text())
}

func judgeIntText(text string) (vs []evid.Violation) {
	d := numref.Classify(text)
	if expensive(text, d) {
		return nil
	}
	// the string parser itself (signed, unbounded)
	vs, _ = judgeChannel(vs, text, d, channel{name: "BigIntegerFromString", call: func() (*big.Int, error) {
		return ethtypes.BigIntegerFromString(context.Background(), text)
	}})
	// JSON string
	doc, seen := quote(text)
	ds := d
	if seen != text {
		ds = numref.Classify(seen)
	}
	vs = jsonChannels(vs, "json-string", seen, ds, doc)
	// JSON number, when the text is one
	if d.IsJSONNumber() {
		vs = jsonChannels(vs, "json-number", text, d, []byte(text))
	}
	return vs
}

// ---------------------------------------------------------------------------------------
// kind "doc": an arbitrary JSON document into the integer types (and non-strings into
// the address / byte-string types)
// ---------------------------------------------------------------------------------------

type DocCase struct {
	Doc string `json:"doc"`
}

func judgeDoc(c DocCase) (vs []evid.Violation) {
	doc := []byte(c.Doc)
	var content interface{}
	valid := json.Valid(doc)
	if valid {
		dec := json.NewDecoder(bytes.NewReader(doc))
		dec.UseNumber()
		if err := dec.Decode(&content); err != nil {
			valid = false
		}
	}
	var d numref.Denotation
	text := c.Doc
	isString := false
	switch x := content.(type) {
	case json.Number:
		text = x.String()
		d = numref.Classify(text)
	case string:
		text = x
		d = numref.Classify(text)
		isString = true
	case nil:
		if valid {
			return nil // JSON null: not asserted (a pointer target becomes nil)
		}
		d = numref.Denotation{Class: numref.Malformed, Reason: "not a JSON document"}
	default:
		d = numref.Denotation{Class: numref.Malformed, Reason: fmt.Sprintf("JSON %T is neither a string nor a number", content)}
	}
	if expensive(text, d) {
		return nil
	}
	vs = jsonChannels(vs, "json-doc", text, d, doc)
	// pointer targets
	vs, _ = judgeChannel(vs, text, d, channel{name: "*HexInteger/json-doc", lo0: true, call: func() (*big.Int, error) {
		var p *ethtypes.HexInteger
		if err := json.Unmarshal(doc, &p); err != nil {
			return nil, err
		}
		if p == nil {
			return nil, nil
		}
		return p.BigInt(), nil
	}})
	vs, _ = judgeChannel(vs, text, d, channel{name: "*HexUint64/json-doc", lo0: true, hiBits: 64, call: func() (*big.Int, error) {
		var p *ethtypes.HexUint64
		if err := json.Unmarshal(doc, &p); err != nil {
			return nil, err
		}
		if p == nil {
			return nil, nil
		}
		return new(big.Int).SetUint64(p.Uint64()), nil
	}})
	if !isString {
		// addresses and byte strings are JSON strings only
		var a0 ethtypes.Address0xHex
		var ap ethtypes.AddressPlainHex
		var ac ethtypes.AddressWithChecksum
		var b0 ethtypes.HexBytes0xPrefix
		var bp ethtypes.HexBytesPlain
		for _, tg := range []struct {
			name   string
			target interface{}
		}{{"Address0xHex", &a0}, {"AddressPlainHex", &ap}, {"AddressWithChecksum", &ac}, {"HexBytes0xPrefix", &b0}, {"HexBytesPlain", &bp}} {
			var err error
			if pv := evid.Guard(tg.name+"/json-doc:no-panic", func() { err = json.Unmarshal(doc, tg.target) }); pv != nil {
				vs = append(vs, *pv)
			} else if err == nil {
				vs = append(vs, evid.V(tg.name+"/json-doc:non-string-rejected", "document %s is not a JSON string but was accepted", shortText(c.Doc)))
			}
		}
	}
	return vs
}

// ---------------------------------------------------------------------------------------
// kind "val": printing of a value and the round trip through JSON
// ---------------------------------------------------------------------------------------

type ValCase struct {
	Dec string `json:"dec"` // non-negative decimal
}

func judgeVal(c ValCase) (vs []evid.Violation) {
	v := new(big.Int)
	if _, ok := v.SetString(c.Dec, 10); !ok || v.Sign() < 0 {
		return []evid.Violation{evid.V("harness", "bad case value %q", c.Dec)}
	}
	want := numref.Hex0x(v)
	wantJSON := `"` + want + `"`
	h := ethtypes.NewHexInteger(new(big.Int).Set(v))
	if got := h.String(); got != want {
		vs = append(vs, evid.V("HexInteger:canonical-string", "String() of %s = %q, want %q", v, got, want))
	}
	type holder struct {
		V ethtypes.HexInteger   `json:"v"`
		P *ethtypes.HexInteger  `json:"p"`
		N *ethtypes.HexInteger  `json:"n"`
		U *ethtypes.HexUint64   `json:"u,omitempty"`
		W ethtypes.HexUint64    `json:"w"`
		A []ethtypes.HexInteger `json:"a"`
	}
	hold := holder{V: *h, P: h, A: []ethtypes.HexInteger{*h}}
	wantDoc := fmt.Sprintf(`{"v":%s,"p":%s,"n":null,"w":"0x0","a":[%s]}`, wantJSON, wantJSON, wantJSON)
	is64 := v.IsUint64()
	if is64 {
		u := ethtypes.HexUint64(v.Uint64())
		hold.U, hold.W = &u, u
		wantDoc = fmt.Sprintf(`{"v":%s,"p":%s,"n":null,"u":%s,"w":%s,"a":[%s]}`, wantJSON, wantJSON, wantJSON, wantJSON, wantJSON)
		if got := u.String(); got != want {
			vs = append(vs, evid.V("HexUint64:canonical-string", "String() of %s = %q, want %q", v, got, want))
		}
		if got := ethtypes.NewHexIntegerU64(v.Uint64()).String(); got != want {
			vs = append(vs, evid.V("HexInteger:canonical-string", "NewHexIntegerU64(%s).String() = %q, want %q", v, got, want))
		}
		if v.IsInt64() {
			if got := ethtypes.NewHexInteger64(v.Int64()).String(); got != want {
				vs = append(vs, evid.V("HexInteger:canonical-string", "NewHexInteger64(%s).String() = %q, want %q", v, got, want))
			}
		}
		if h.Uint64() != v.Uint64() {
			vs = append(vs, evid.V("HexInteger:uint64", "Uint64() of %s = %d", v, h.Uint64()))
		}
	}
	for i, val := range []interface{}{*h, h} {
		b, err := json.Marshal(val)
		if err != nil || string(b) != wantJSON {
			vs = append(vs, evid.V("HexInteger:canonical-json", "json.Marshal(%s %s) = %s, %v; want %s", []string{"HexInteger", "*HexInteger"}[i], v, b, err, wantJSON))
		}
	}
	doc, err := json.Marshal(hold)
	if err != nil {
		return append(vs, evid.V("marshal", "json.Marshal of the holder struct failed: %v", err))
	}
	if string(doc) != wantDoc {
		vs = append(vs, evid.V("canonical-json", "holder marshals to %s, want %s", doc, wantDoc))
	}
	var back holder
	if err := json.Unmarshal(doc, &back); err != nil {
		return append(vs, evid.V("roundtrip", "own output %s is rejected: %v", doc, err))
	}
	if back.V.BigInt().Cmp(v) != 0 || back.P == nil || back.P.BigInt().Cmp(v) != 0 || back.N != nil || len(back.A) != 1 || back.A[0].BigInt().Cmp(v) != 0 {
		vs = append(vs, evid.V("HexInteger:roundtrip", "Unmarshal(Marshal(%s)) gave v=%s p=%v", v, back.V.BigInt(), back.P))
	}
	if is64 && (back.U == nil || back.U.Uint64() != v.Uint64() || back.W.Uint64() != v.Uint64()) {
		vs = append(vs, evid.V("HexUint64:roundtrip", "Unmarshal(Marshal(%s)) gave u=%v w=%d", v, back.U, back.W))
	}
	return vs
}

// ---------------------------------------------------------------------------------------
// kind "addr" and kind "bytes": hex texts into the address and byte-string types
// ---------------------------------------------------------------------------------------

type AddrCase struct {
	Text string `json:"text"`
}

type hexChannel struct {
	name string
	call func() ([]byte, error)
}

// judgeHexChannel: accepted => exactly the denoted bytes of an allowed length; valid => accepted.
func judgeHexChannel(vs []evid.Violation, text string, wantLen int, ch hexChannel) []evid.Violation {
	want, _, class := numref.ParseHexBytes(text)
	lengthOK := wantLen < 0 || len(want) == wantLen
	var got []byte
	var err error
	if pv := evid.Guard(ch.name+":no-panic", func() { got, err = ch.call() }); pv != nil {
		pv.Detail = "text " + shortText(text) + ": " + pv.Detail
		return append(vs, *pv)
	}
	if err != nil {
		if class == numref.HexValid && lengthOK {
			vs = append(vs, evid.V(ch.name+":accept-valid", "text %s is valid hex of %d bytes but was rejected: %v", shortText(text), len(want), err))
		}
		return vs
	}
	switch {
	case class == numref.HexInvalid:
		vs = append(vs, evid.V(ch.name+":non-hex-rejected", "text %s is not hex (odd length or non-hex character) but was accepted as %x", shortText(text), got))
	case !lengthOK:
		vs = append(vs, evid.V(ch.name+":wrong-length-rejected", "text %s denotes %d bytes, want %d, but was accepted as %x", shortText(text), len(want), wantLen, got))
	case !bytes.Equal(got, want):
		vs = append(vs, evid.V(ch.name+":exact-bytes", "text %s parsed as %x, want %x", shortText(text), got, want))
	}
	return vs
}

func judgeAddr(c AddrCase) (vs []evid.Violation) {
	text := c.Text
	doc, seen := quote(text)
	vs = judgeHexChannel(vs, seen, 20, hexChannel{"Address0xHex/json", func() ([]byte, error) {
		var a ethtypes.Address0xHex
		err := unmarshalOwned(doc, &a)
		return a[:], err
	}})
	vs = judgeHexChannel(vs, seen, 20, hexChannel{"AddressPlainHex/json", func() ([]byte, error) {
		var a ethtypes.AddressPlainHex
		err := unmarshalOwned(doc, &a)
		return a[:], err
	}})
	vs = judgeHexChannel(vs, seen, 20, hexChannel{"AddressWithChecksum/json", func() ([]byte, error) {
		var a ethtypes.AddressWithChecksum
		err := unmarshalOwned(doc, &a)
		return a[:], err
	}})
	vs = judgeHexChannel(vs, text, 20, hexChannel{"NewAddress", func() ([]byte, error) {
		a, err := ethtypes.NewAddress(text)
		if err != nil {
			return nil, err
		}
		return a[:], nil
	}})
	vs = judgeHexChannel(vs, text, 20, hexChannel{"NewAddressWithChecksum", func() ([]byte, error) {
		a, err := ethtypes.NewAddressWithChecksum(text)
		if err != nil {
			return nil, err
		}
		return a[:], nil
	}})
	vs = judgeHexChannel(vs, text, 20, hexChannel{"Address0xHex.SetString", func() ([]byte, error) {
		var a ethtypes.Address0xHex
		err := a.SetString(text)
		return a[:], err
	}})
	b, _, class := numref.ParseHexBytes(text)
	if class == numref.HexInvalid || len(b) != 20 {
		return vs
	}
	// documented output forms of the denoted address
	var a0 ethtypes.Address0xHex
	copy(a0[:], b)
	ap, ac := ethtypes.AddressPlainHex(a0), ethtypes.AddressWithChecksum(a0)
	lower := numref.LowerHex(b)
	forms := []struct {
		name string
		val  interface{ String() string }
		want string
	}{
		{"Address0xHex", a0, "0x" + lower},
		{"AddressPlainHex", ap, lower},
		{"AddressWithChecksum", ac, numref.EIP55(b)},
	}
	for _, f := range forms {
		if got := f.val.String(); got != f.want {
			vs = append(vs, evid.V(f.name+":documented-form", "String() = %q, want %q", got, f.want))
		}
		j, err := json.Marshal(f.val)
		if err != nil || string(j) != `"`+f.want+`"` {
			vs = append(vs, evid.V(f.name+":documented-json", "json.Marshal = %s, %v; want %q", j, err, f.want))
			continue
		}
		// every printed form parses back, into every address type, to the same bytes
		var r0 ethtypes.Address0xHex
		var rp ethtypes.AddressPlainHex
		var rc ethtypes.AddressWithChecksum
		for i, target := range []interface{}{&r0, &rp, &rc} {
			if err := json.Unmarshal(j, target); err != nil {
				vs = append(vs, evid.V(f.name+":roundtrip", "printed form %s rejected by %s: %v", j, forms[i].name, err))
			}
		}
		if !bytes.Equal(r0[:], b) || !bytes.Equal(rp[:], b) || !bytes.Equal(rc[:], b) {
			vs = append(vs, evid.V(f.name+":roundtrip", "printed form %s parses back to %x / %x / %x, want %x", j, r0[:], rp[:], rc[:], b))
		}
	}
	return vs
}

type HexCase struct {
	Text string `json:"text"`
}

func judgeBytes(c HexCase) (vs []evid.Violation) {
	text := c.Text
	doc, seen := quote(text)
	vs = judgeHexChannel(vs, seen, -1, hexChannel{"HexBytes0xPrefix/json", func() ([]byte, error) {
		var h ethtypes.HexBytes0xPrefix
		err := unmarshalOwned(doc, &h)
		return h, err
	}})
	vs = judgeHexChannel(vs, seen, -1, hexChannel{"HexBytesPlain/json", func() ([]byte, error) {
		var h ethtypes.HexBytesPlain
		err := unmarshalOwned(doc, &h)
		return h, err
	}})
	vs = judgeHexChannel(vs, text, -1, hexChannel{"NewHexBytes0xPrefix", func() ([]byte, error) {
		h, err := ethtypes.NewHexBytes0xPrefix(text)
		return h, err
	}})
	b, _, class := numref.ParseHexBytes(text)
	if class == numref.HexInvalid {
		return vs
	}
	lower := numref.LowerHex(b)
	forms := []struct {
		name string
		val  interface{ String() string }
		want string
	}{
		{"HexBytes0xPrefix", ethtypes.HexBytes0xPrefix(b), "0x" + lower},
		{"HexBytesPlain", ethtypes.HexBytesPlain(b), lower},
	}
	for _, f := range forms {
		if got := f.val.String(); got != f.want {
			vs = append(vs, evid.V(f.name+":documented-form", "String() = %s, want %s", shortText(got), shortText(f.want)))
		}
		j, err := json.Marshal(f.val)
		if err != nil || string(j) != `"`+f.want+`"` {
			vs = append(vs, evid.V(f.name+":documented-json", "json.Marshal = %s, %v; want %s", shortText(string(j)), err, shortText(f.want)))
			continue
		}
		var r0 ethtypes.HexBytes0xPrefix
		var rp ethtypes.HexBytesPlain
		if err := json.Unmarshal(j, &r0); err != nil {
			vs = append(vs, evid.V(f.name+":roundtrip", "printed form rejected by HexBytes0xPrefix: %v", err))
		}
		if err := json.Unmarshal(j, &rp); err != nil {
			vs = append(vs, evid.V(f.name+":roundtrip", "printed form rejected by HexBytesPlain: %v", err))
		}
		if !bytes.Equal(r0, b) || !bytes.Equal(rp, b) {
			vs = append(vs, evid.V(f.name+":roundtrip", "printed form of %d bytes parses back to %d / %d bytes with different content", len(b), len(r0), len(rp)))
		}
	}
	return vs
}

// ---------------------------------------------------------------------------------------
// classification of cases for the evidence
// ---------------------------------------------------------------------------------------

func hasMixedCaseHex(s string) bool {
	lo, up := false, false
	for i := 0; i < len(s); i++ {
		switch {
		case s[i] >= 'a' && s[i] <= 'f':
			lo = true
		case s[i] >= 'A' && s[i] <= 'F':
			up = true
		}
	}
	return lo && up
}

func intClasses(text string) (nontrivial bool, cl []string) {
	d := numref.Classify(text)
	if expensive(text, d) {
		return false, []string{"int:skipped-huge-exponent"}
	}
	switch d.Class {
	case numref.Malformed:
		return false, []string{"int:malformed"}
	case numref.Unspecified:
		return false, []string{"int:unspecified(go-literal-oddity)"}
	}
	label := "int:" + d.Class.String() + "/" + d.Form.String()
	if d.Form == numref.FormFloat {
		switch {
		case d.HasFrac && d.HasExp:
			label += "(frac+exp)"
		case d.HasFrac:
			label += "(frac)"
		default:
			label += "(exp)"
		}
		nontrivial = true
	}
	cl = append(cl, label)
	if d.Neg {
		cl = append(cl, "int:negative-sign")
	}
	if d.Form == numref.FormHex && hasMixedCaseHex(text) {
		nontrivial = true
		cl = append(cl, "int:hex-mixed-case")
	}
	switch {
	case d.AbsBelowPow2(53):
		cl = append(cl, "int:|x|<2^53")
	case d.AbsBelowPow2(63):
		cl = append(cl, "int:2^53<=|x|<2^63")
	case d.AbsBelowPow2(64):
		cl = append(cl, "int:2^63<=|x|<2^64")
	case d.AbsBelowPow2(256):
		cl = append(cl, "int:2^64<=|x|<2^256")
	default:
		cl = append(cl, "int:|x|>=2^256")
	}
	if !d.AbsBelowPow2(53) {
		nontrivial = true
	}
	if d.Class == numref.Integer && d.Value != nil {
		for _, b := range []struct {
			v    *big.Int
			name string
		}{{two53, "2^53"}, {new(big.Int).Lsh(one, 63), "2^63"}, {two64, "2^64"}, {two256, "2^256"}} {
			diff := new(big.Int).Sub(new(big.Int).Abs(d.Value), b.v)
			if diff.CmpAbs(one) <= 0 {
				cl = append(cl, "int:within-1-of-"+b.name)
			}
		}
	}
	if d.Form == numref.FormFloat {
		switch {
		case d.Digits > 77:
			cl = append(cl, "int:mantissa>77-digits(beyond-256-bit)")
		case d.Digits > 60:
			cl = append(cl, "int:mantissa-61..77-digits")
		case d.Digits > 17:
			cl = append(cl, "int:mantissa-18..60-digits")
		}
	}
	if mustAccept(d, channel{}) {
		cl = append(cl, "int:must-accept(BigInteger)")
	}
	if mustAccept(d, channel{lo0: true, hiBits: 64}) {
		cl = append(cl, "int:must-accept(HexUint64)")
	}
	return nontrivial, cl
}

// docClasses labels a JSON document by what it carries.
func docClasses(doc string) (nontrivial bool, cl []string) {
	if !json.Valid([]byte(doc)) {
		return false, []string{"doc:not-json"}
	}
	var content interface{}
	dec := json.NewDecoder(strings.NewReader(doc))
	dec.UseNumber()
	if err := dec.Decode(&content); err != nil {
		return false, []string{"doc:not-json"}
	}
	switch x := content.(type) {
	case json.Number:
		nt, icl := intClasses(x.String())
		return nt, append(icl, "doc:json-number")
	case string:
		nt, icl := intClasses(x)
		return nt, append(icl, "doc:json-string")
	case nil:
		return false, []string{"doc:null(not-asserted)"}
	default:
		return false, []string{"doc:other-json-type"}
	}
}

func hexClasses(kind string, text string, wantLen int) (nontrivial bool, cl []string) {
	b, prefixed, class := numref.ParseHexBytes(text)
	switch {
	case class == numref.HexInvalid:
		cl = append(cl, kind+":invalid(non-hex/odd)")
		nontrivial = true
	case wantLen >= 0 && len(b) != wantLen:
		cl = append(cl, fmt.Sprintf("%s:wrong-length", kind))
		if len(b) == wantLen-1 || len(b) == wantLen+1 {
			cl = append(cl, fmt.Sprintf("%s:length-neighbour(19/21)", kind))
		}
		nontrivial = true
	case class == numref.HexUnspecified:
		cl = append(cl, kind+":0X-prefix(unspecified)")
	default:
		cl = append(cl, kind+":valid")
	}
	if prefixed {
		cl = append(cl, kind+":prefixed")
	} else {
		cl = append(cl, kind+":no-prefix")
	}
	if hasMixedCaseHex(text) {
		cl = append(cl, kind+":mixed-case")
		nontrivial = true
	}
	if wantLen < 0 && class != numref.HexInvalid {
		switch {
		case len(b) == 0:
			cl = append(cl, kind+":empty")
		case len(b) >= 1024:
			cl = append(cl, kind+":>=1KiB")
		case len(b) >= 256:
			cl = append(cl, kind+":256B..1KiB")
		}
	}
	return
}

// ---------------------------------------------------------------------------------------
// entry points
// ---------------------------------------------------------------------------------------

type kinds struct {
	kInt    *evid.Kind[IntCase]
	kDoc    *evid.Kind[DocCase]
	kVal    *evid.Kind[ValCase]
	kAddr   *evid.Kind[AddrCase]
	kBytes  *evid.Kind[HexCase]
	kSeq    *evid.Kind[SeqCase]
	kHexSeq *evid.Kind[HexSeqCase]
	// the same judges called from several goroutines at once (state shared between calls)
	pInt    *evid.Pool[IntCase]
	pDoc    *evid.Pool[DocCase]
	pVal    *evid.Pool[ValCase]
	pAddr   *evid.Pool[AddrCase]
	pBytes  *evid.Pool[HexCase]
	pSeq    *evid.Pool[SeqCase]
	pHexSeq *evid.Pool[HexSeqCase]
}

// register declares every kind; pool is the number of cases each concurrent kind collects (0 in TestReplay).
func register(rec *evid.Recorder, pool int) kinds {
	return kinds{
		kInt:    evid.NewKind(rec, "int", judgeInt),
		kDoc:    evid.NewKind(rec, "doc", judgeDoc),
		kVal:    evid.NewKind(rec, "val", judgeVal),
		kAddr:   evid.NewKind(rec, "addr", judgeAddr),
		kBytes:  evid.NewKind(rec, "bytes", judgeBytes),
		kSeq:    evid.NewKind(rec, "seq", judgeSeq),
		kHexSeq: evid.NewKind(rec, "hexseq", judgeHexSeq),
		pInt:    evid.NewPool(rec, "concurrent-int", judgeInt, pool),
		pDoc:    evid.NewPool(rec, "concurrent-doc", judgeDoc, pool),
		pVal:    evid.NewPool(rec, "concurrent-val", judgeVal, pool),
		pAddr:   evid.NewPool(rec, "concurrent-addr", judgeAddr, pool),
		pBytes:  evid.NewPool(rec, "concurrent-bytes", judgeBytes, pool/4),
		pSeq:    evid.NewPool(rec, "concurrent-seq", judgeSeq, pool/4),
		pHexSeq: evid.NewPool(rec, "concurrent-hexseq", judgeHexSeq, pool/4),
	}
}

// sweepAlphabet: 16 letters (one first letter per thorough shard)
const sweepAlphabet = "019afxXeE+-._bp "

func TestCheck(t *testing.T) {
	rec := evid.Start("C19", rule)
	defer rec.Finish()
	rec.Assume("reference: ref/numref (explicit grammar, exact integer arithmetic; EIP-55 over ref/secp.Keccak256), written independently of pkg/ethtypes")
	rec.Assume("not asserted: Go base-0 literal oddities (leading-zero decimals, 0b/0o, '_', leading '+', bare '.', 'p' exponent, hex floats, surrounding white space), " +
		"acceptance of negative-zero spellings, exponent/fraction spellings of values >= 2^256, acceptance of exponent spellings with more than 60 mantissa digits, an upper-case 0X prefix on addresses/bytes, JSON null")
	rec.Assume("texts with an exponent of more than 4 digits are not run (cost; outside the quantifier)")
	k := register(rec, 1024)
	rec.Corpus(t)

	// exhaustive: every text of up to 4 (thorough: 5) characters over a 16-letter numeric alphabet
	maxLen := 4
	if rec.Thorough() {
		maxLen = 5
	}
	t.Run("exhaustive-short-texts", func(t *testing.T) {
		var n, nt int64
		var sweep func(prefix []byte, remaining int)
		sweep = func(prefix []byte, remaining int) {
			text := string(prefix)
			n++
			if vs := judgeIntText(text); len(vs) > 0 {
				k.kInt.Fail(t, IntCase{Text: text}, vs)
			}
			if d := numref.Classify(text); d.Form == numref.FormFloat {
				nt++
			}
			if remaining == 0 {
				return
			}
			for i := 0; i < len(sweepAlphabet); i++ {
				sweep(append(prefix, sweepAlphabet[i]), remaining-1)
			}
		}
		if rec.Shards > 1 {
			if rec.Shard == 0 {
				n++
				if vs := judgeIntText(""); len(vs) > 0 {
					k.kInt.Fail(t, IntCase{Text: ""}, vs)
				}
			}
			for i := rec.Shard; i < len(sweepAlphabet); i += rec.Shards {
				sweep([]byte{sweepAlphabet[i]}, maxLen-1)
			}
		} else {
			sweep(nil, maxLen)
		}
		s := IntCase{Text: "1e1"}
		k.kInt.Bulk(n, nt, true, fmt.Sprintf("int:exhaustive<=%dchars", maxLen), &s)
	})

	// boundary table: every anchor value in every deterministic spelling
	t.Run("anchors", func(t *testing.T) {
		if rec.Shard != 0 {
			return
		}
		for _, v := range anchorValues() {
			k.kVal.Must(t, ValCase{Dec: v.String()}, v.Cmp(two53) >= 0, "val:anchor")
			for _, text := range deterministicSpellings(v) {
				for _, s := range []string{text, "-" + text} {
					nt, cl := intClasses(s)
					k.kInt.Must(t, IntCase{Text: s}, nt, append(cl, "int:anchor-table")...)
				}
			}
		}
		for _, text := range fixedTexts {
			nt, cl := intClasses(text)
			k.kInt.Must(t, IntCase{Text: text}, nt, append(cl, "int:fixed-table")...)
		}
		for _, doc := range fixedDocs {
			nt, cl := docClasses(doc)
			k.kDoc.Must(t, DocCase{Doc: doc}, nt, append(cl, "doc:fixed-table")...)
		}
		for _, a := range eip55Vectors {
			for _, text := range []string{a, a[2:], strings.ToLower(a), strings.ToUpper(a[2:]), "0x" + strings.ToUpper(a[2:])} {
				nt, cl := hexClasses("addr", text, 20)
				k.kAddr.Must(t, AddrCase{Text: text}, nt, append(cl, "addr:eip55-vector")...)
			}
		}
	})

	rec.Rapid(t, "int", rec.N(100000, 500000), func(rt *rapid.T) {
		text, how := genIntText(rt)
		nt, cl := intClasses(text)
		k.kInt.Check(rt, IntCase{Text: text}, nt, append(cl, "gen:"+how)...)
		if nt {
			k.pInt.Offer(IntCase{Text: text})
		}
	})

	// histories: results of earlier parses must survive later parses
	rec.Rapid(t, "seq", rec.N(3000, 20000), func(rt *rapid.T) {
		n := rapid.IntRange(2, 8).Draw(rt, "n")
		var texts []string
		floats := 0
		for i := 0; i < n; i++ {
			text, _ := genIntText(rt)
			if d := numref.Classify(text); d.Form == numref.FormFloat && d.Class == numref.Integer {
				floats++
			}
			texts = append(texts, text)
		}
		cl := "seq:<2-float-spellings"
		if floats >= 2 {
			cl = "seq:>=2-float-spellings"
		}
		k.kSeq.Check(rt, SeqCase{Texts: texts}, floats >= 2, cl)
		k.pSeq.Offer(SeqCase{Texts: texts})
	})

	// histories of byte-string / address parses into the same targets
	rec.Rapid(t, "hexseq", rec.N(4000, 30000), func(rt *rapid.T) {
		c, nt, cl := genHexSeq(rt)
		k.kHexSeq.Check(rt, c, nt, cl...)
		k.pHexSeq.Offer(c)
	})

	rec.Rapid(t, "doc", rec.N(15000, 60000), func(rt *rapid.T) {
		doc, how := genDoc(rt)
		nt, cl := docClasses(doc)
		k.kDoc.Check(rt, DocCase{Doc: doc}, nt, append(cl, "doc-gen:"+how)...)
		if nt {
			k.pDoc.Offer(DocCase{Doc: doc})
		}
	})

	rec.Rapid(t, "val", rec.N(15000, 60000), func(rt *rapid.T) {
		v := genValue(rt)
		cl := "val:<2^64"
		if !v.IsUint64() {
			cl = "val:>=2^64"
		}
		k.kVal.Check(rt, ValCase{Dec: v.String()}, v.Cmp(two53) >= 0, cl)
		k.pVal.Offer(ValCase{Dec: v.String()})
	})

	rec.Rapid(t, "addr", rec.N(25000, 100000), func(rt *rapid.T) {
		text, how := genAddrText(rt)
		nt, cl := hexClasses("addr", text, 20)
		k.kAddr.Check(rt, AddrCase{Text: text}, nt, append(cl, "addr-gen:"+how)...)
		if b, _, class := numref.ParseHexBytes(text); class == numref.HexValid && len(b) == 20 {
			k.pAddr.Offer(AddrCase{Text: text}) // only texts that reach the printing side (EIP-55) as well
		}
	})

	rec.Rapid(t, "bytes", rec.N(10000, 50000), func(rt *rapid.T) {
		text, how := genBytesText(rt)
		nt, cl := hexClasses("bytes", text, -1)
		k.kBytes.Check(rt, HexCase{Text: text}, nt, append(cl, "bytes-gen:"+how)...)
		if _, _, class := numref.ParseHexBytes(text); class == numref.HexValid {
			k.pBytes.Offer(HexCase{Text: text})
		}
	})

	// concurrent callers: every batch is judged from 8 goroutines at once, several rounds
	k.pAddr.Run(t, 8, 4, 256)
	k.pVal.Run(t, 8, 3, 256)
	k.pInt.Run(t, 8, 3, 256)
	k.pDoc.Run(t, 8, 2, 256)
	k.pBytes.Run(t, 8, 2, 64)
	k.pSeq.Run(t, 8, 2, 64)
	k.pHexSeq.Run(t, 8, 2, 64)
}

func TestReplay(t *testing.T) {
	rec := evid.Start("C19", rule)
	register(rec, 0)
	rec.Replay(t)
}

// FuzzIntegerText is the coverage-guided target (thorough tier only): arbitrary text into
// the same oracle as kind "int".
func FuzzIntegerText(f *testing.F) {
	for _, s := range fixedTexts {
		f.Add(s)
	}
	for _, v := range anchorValues() {
		for _, s := range deterministicSpellings(v) {
			f.Add(s)
		}
	}
	rec := evid.Start("C19", rule)
	k := evid.NewKind(rec, "int", judgeInt)
	f.Fuzz(func(t *testing.T, text string) {
		if len(text) > 600 {
			return
		}
		if vs := judgeIntText(text); len(vs) > 0 {
			k.Fail(t, intCase(text), vs)
		}
	})
}
