package c19

import (
	"bytes"
	"encoding/json"
	"fmt"

	"github.com/hyperledger/firefly-signer/pkg/ethtypes"
	"pgregory.net/rapid"

	"verifharness/evid"
	"verifharness/gen"
	"verifharness/ref/numref"
)

// ---------------------------------------------------------------------------------------
// kind "hexseq": a HISTORY of byte-string / address parses into the SAME targets - a
// variable, a pointer target, the fields, pointer fields and list elements of one struct
// that is decoded again and again (a re-used message struct, a template that is copied and
// overlaid).  Each parse must yield exactly the denoted bytes when it returns, and every
// slice an earlier parse produced must still hold its bytes after all later parses, after
// the caller overwrote the JSON text it had passed in, and after OTHER results were
// modified in place.  Oracle: ref/numref denotation + the snapshot taken after each call.
// ---------------------------------------------------------------------------------------

type HexSeqCase struct {
	Texts []string `json:"texts"`
}

type hexHolder struct {
	Plain  ethtypes.HexBytesPlain      `json:"plain"`
	Ox     ethtypes.HexBytes0xPrefix   `json:"ox"`
	PPlain *ethtypes.HexBytesPlain     `json:"pplain"`
	POx    *ethtypes.HexBytes0xPrefix  `json:"pox"`
	List   []ethtypes.HexBytes0xPrefix `json:"list"`
}

type addrHolder struct {
	A0 ethtypes.Address0xHex         `json:"a0"`
	AP ethtypes.AddressPlainHex      `json:"ap"`
	PC *ethtypes.AddressWithChecksum `json:"pc"`
}

type keptBytes struct {
	step int
	via  string
	live []byte // the slice the parse produced (header copy: same backing array)
	snap []byte
}

// own hands the library a private copy of doc that is overwritten right after the call.
func own(doc []byte, call func(doc []byte) error) error {
	buf := append(make([]byte, 0, len(doc)+16), doc...)
	err := call(buf)
	for i := range buf {
		buf[i] = 'Z'
	}
	return err
}

func judgeHexSeq(c HexSeqCase) (vs []evid.Violation) {
	var keep []keptBytes
	var vPlain ethtypes.HexBytesPlain
	var v0x ethtypes.HexBytes0xPrefix
	var pPlain *ethtypes.HexBytesPlain
	var p0x *ethtypes.HexBytes0xPrefix
	var hold hexHolder
	var a0 ethtypes.Address0xHex
	var pa *ethtypes.AddressWithChecksum
	var ahold addrHolder

	for i, text := range c.Texts {
		doc, seen := quote(text)
		want, _, class := numref.ParseHexBytes(seen)
		// got: the target's content after a parse that reported success
		judge := func(via string, err error, got []byte, wantLen int) {
			if class == numref.HexUnspecified {
				return // upper-case 0X prefix: no verdict
			}
			if err != nil {
				if class == numref.HexValid && (wantLen < 0 || len(want) == wantLen) {
					vs = append(vs, evid.V(via+":accept-valid", "step %d: text %s is valid hex of %d bytes but was rejected when parsed into a target used before: %v", i, shortText(seen), len(want), err))
				}
				return
			}
			switch {
			case class == numref.HexInvalid:
				vs = append(vs, evid.V(via+":non-hex-rejected", "step %d: text %s is not hex but was accepted as %x", i, shortText(seen), got))
			case wantLen >= 0 && len(want) != wantLen:
				vs = append(vs, evid.V(via+":wrong-length-rejected", "step %d: text %s denotes %d bytes, want %d, but was accepted as %x", i, shortText(seen), len(want), wantLen, got))
			case !bytes.Equal(got, want):
				vs = append(vs, evid.V(via+":exact-bytes", "step %d: text %s parsed into a target used before gives %x, want %x", i, shortText(seen), got, want))
			case wantLen < 0:
				keep = append(keep, keptBytes{step: i, via: via, live: got, snap: append([]byte{}, got...)})
			}
		}
		if pv := evid.Guard("hexseq:no-panic", func() {
			judge("HexBytesPlain(same variable)", own(doc, func(d []byte) error { return json.Unmarshal(d, &vPlain) }), vPlain, -1)
			judge("HexBytes0xPrefix(same variable)", own(doc, func(d []byte) error { return json.Unmarshal(d, &v0x) }), v0x, -1)
			if err := own(doc, func(d []byte) error { return json.Unmarshal(d, &pPlain) }); err != nil || pPlain != nil {
				var got []byte
				if pPlain != nil {
					got = *pPlain
				}
				judge("*HexBytesPlain(same pointer target)", err, got, -1)
			}
			if err := own(doc, func(d []byte) error { return json.Unmarshal(d, &p0x) }); err != nil || p0x != nil {
				var got []byte
				if p0x != nil {
					got = *p0x
				}
				judge("*HexBytes0xPrefix(same pointer target)", err, got, -1)
			}
			q := string(doc)
			hdoc := []byte(`{"plain":` + q + `,"ox":` + q + `,"pplain":` + q + `,"pox":` + q + `,"list":[` + q + `,` + q + `]}`)
			err := own(hdoc, func(d []byte) error { return json.Unmarshal(d, &hold) })
			if err != nil {
				judge("struct decoded again", err, nil, -1)
			} else if hold.PPlain == nil || hold.POx == nil || len(hold.List) != 2 {
				vs = append(vs, evid.V("hexseq:struct-shape", "step %d: struct decoded from %s lacks members", i, shortText(string(hdoc))))
			} else {
				judge("struct field HexBytesPlain", nil, hold.Plain, -1)
				judge("struct field HexBytes0xPrefix", nil, hold.Ox, -1)
				judge("struct field *HexBytesPlain", nil, *hold.PPlain, -1)
				judge("struct field *HexBytes0xPrefix", nil, *hold.POx, -1)
				judge("struct list element [0]", nil, hold.List[0], -1)
				judge("struct list element [1]", nil, hold.List[1], -1)
			}
			// a template that is copied and then overlaid: the copy shares every slice with the original
			tmpl := hold
			cp := tmpl
			if err := own(hdoc, func(d []byte) error { return json.Unmarshal(d, &cp) }); err == nil && cp.PPlain != nil && len(cp.List) == 2 {
				judge("copied struct field HexBytesPlain", nil, cp.Plain, -1)
				judge("copied struct field HexBytes0xPrefix", nil, cp.Ox, -1)
				judge("copied struct list element [0]", nil, cp.List[0], -1)
			}
			// addresses into the same targets
			judge("Address0xHex(same variable)", own(doc, func(d []byte) error { return json.Unmarshal(d, &a0) }), a0[:], 20)
			if err := own(doc, func(d []byte) error { return json.Unmarshal(d, &pa) }); err != nil || pa != nil {
				var got []byte
				if pa != nil {
					got = pa[:]
				}
				judge("*AddressWithChecksum(same pointer target)", err, got, 20)
				if err == nil && pa != nil && class == numref.HexValid && len(want) == 20 {
					if s := pa.String(); s != numref.EIP55(want) {
						vs = append(vs, evid.V("AddressWithChecksum:documented-form", "step %d: String() = %q, want %q", i, s, numref.EIP55(want)))
					}
				}
			}
			adoc := []byte(`{"a0":` + q + `,"ap":` + q + `,"pc":` + q + `}`)
			if err := own(adoc, func(d []byte) error { return json.Unmarshal(d, &ahold) }); err != nil {
				judge("address struct decoded again", err, nil, 20)
			} else if ahold.PC != nil {
				judge("struct field Address0xHex", nil, ahold.A0[:], 20)
				judge("struct field AddressPlainHex", nil, ahold.AP[:], 20)
				judge("struct field *AddressWithChecksum", nil, ahold.PC[:], 20)
			}
		}); pv != nil {
			return append(vs, *pv)
		}
		if len(vs) > 0 {
			return vs
		}
	}
	stable := func(when string, skip int) {
		for j, k := range keep {
			if j != skip && !bytes.Equal(k.live, k.snap) {
				vs = append(vs, evid.V("result-stable-across-calls", "the bytes parsed at step %d (%s) were %x right after the call and read %x %s", k.step, k.via, k.snap, k.live, when))
				return
			}
		}
	}
	stable("after the later parses into the same targets", -1)
	if len(vs) > 0 {
		return vs
	}
	// results do not share storage: modify one in place, the others stay
	for j := range keep {
		if len(keep[j].live) == 0 {
			continue
		}
		for x := range keep[j].live {
			keep[j].live[x] ^= 0x5A
		}
		stable(fmt.Sprintf("after the result of step %d (%s) was modified in place", keep[j].step, keep[j].via), j)
		if len(vs) > 0 {
			return vs
		}
		keep[j].snap = append([]byte{}, keep[j].live...)
	}
	return vs
}

// genHexSeq draws a history of hex texts in which later texts are often as long as or
// shorter than earlier ones (what lets a parser re-use the storage of an earlier result).
func genHexSeq(rt *rapid.T) (HexSeqCase, bool, []string) {
	n := rapid.IntRange(2, 8).Draw(rt, "hs.n")
	lens := []int{0, 1, 2, 3, 4, 8, 16, 19, 20, 20, 20, 21, 32, 33, 64, 100}
	var c HexSeqCase
	var valid []int
	shrinking, addr := false, false
	for i := 0; i < n; i++ {
		l := fmt.Sprintf("hs.%d", i)
		ln := rapid.SampledFrom(lens).Draw(rt, l+".len")
		if i > 0 && len(valid) > 0 && rapid.IntRange(0, 2).Draw(rt, l+".rel") > 0 {
			// related to an earlier text: the same length, or a shorter one
			prev := valid[rapid.IntRange(0, len(valid)-1).Draw(rt, l+".prev")]
			ln = prev
			if prev > 0 && rapid.Bool().Draw(rt, l+".shorter") {
				ln = rapid.IntRange(0, prev-1).Draw(rt, l+".lenShorter")
			}
		}
		b := gen.Bytes(rt, l+".b", ln)
		text, _ := spellBytes(rt, b)
		if rapid.IntRange(0, 7).Draw(rt, l+".break") == 0 {
			text, _ = breakHex(rt, text)
		}
		if _, _, class := numref.ParseHexBytes(text); class == numref.HexValid {
			for _, p := range valid {
				if ln <= p {
					shrinking = true
				}
			}
			valid = append(valid, ln)
			if ln == 20 {
				addr = true
			}
		}
		c.Texts = append(c.Texts, text)
	}
	var cl []string
	if shrinking {
		cl = append(cl, "hexseq:later-text-not-longer-than-an-earlier-one")
	} else {
		cl = append(cl, "hexseq:growing-only")
	}
	if addr {
		cl = append(cl, "hexseq:has-20-byte-text")
	}
	if len(valid) < len(c.Texts) {
		cl = append(cl, "hexseq:has-rejected-text")
	}
	return c, shrinking, cl
}
