package c19

import (
	"encoding/json"
	"fmt"
	"math/big"
	"strings"

	"pgregory.net/rapid"

	"verifharness/gen"
	"verifharness/ref/numref"
)

func pow2(n uint) *big.Int { return new(big.Int).Lsh(one, n) }
func pow10(n int) *big.Int { return new(big.Int).Exp(big.NewInt(10), big.NewInt(int64(n)), nil) }
func add(a *big.Int, d int64) *big.Int {
	return new(big.Int).Add(a, big.NewInt(d))
}

// anchorValues are the boundaries the property names, each with its neighbours.
func anchorValues() []*big.Int {
	var out []*big.Int
	for _, c := range []*big.Int{pow2(53), pow2(63), pow2(64), pow2(128), pow2(255), pow2(256), pow2(260)} {
		out = append(out, add(c, -1), c, add(c, 1))
	}
	for _, k := range []int{15, 16, 18, 19, 20, 38, 59, 60, 76, 77, 78} {
		out = append(out, pow10(k))
	}
	for _, s := range []int64{0, 1, 9, 10, 15, 16, 255, 256, 1500, 12345} {
		out = append(out, big.NewInt(s))
	}
	return out
}

var anchors = anchorValues()

// genValue draws a non-negative integer in [0, 2^260] with boundary bias.
func genValue(rt *rapid.T) *big.Int {
	mode := rapid.IntRange(0, 9).Draw(rt, "v.mode")
	var v *big.Int
	switch {
	case mode < 3:
		v = rapid.SampledFrom(anchors).Draw(rt, "v.anchor")
		if rapid.IntRange(0, 3).Draw(rt, "v.nudge") == 0 {
			v = add(v, int64(rapid.IntRange(-3, 3).Draw(rt, "v.delta")))
		}
	case mode < 5:
		v = big.NewInt(int64(rapid.IntRange(0, 100000).Draw(rt, "v.small")))
	case mode < 6:
		// few significant digits times a power of ten
		v = new(big.Int).Mul(big.NewInt(int64(rapid.IntRange(1, 99999).Draw(rt, "v.sig"))), pow10(rapid.IntRange(0, 77).Draw(rt, "v.e10")))
	default:
		bits := rapid.SampledFrom([]uint{53, 54, 63, 64, 65, 128, 255, 256, 257, 260}).Draw(rt, "v.bits")
		v = gen.Uint(rt, "v.u", bits)
	}
	if v.Sign() < 0 {
		v = new(big.Int)
	}
	if v.Cmp(pow2(260)) > 0 {
		v = pow2(260)
	}
	return v
}

func zeros(n int) string { return strings.Repeat("0", n) }

// padChoices are fraction/zero-run lengths around the precision thresholds: 17 (float64),
// 60 (must-accept bound), 77/78 (2^256 has 78 digits), 120 (stated mantissa bound).
var padChoices = []int{1, 2, 3, 15, 16, 17, 18, 40, 58, 59, 60, 61, 76, 77, 78, 79, 80, 100, 118, 119}

func expPart(rt *rapid.T, e int) string {
	var sb strings.Builder
	sb.WriteString(rapid.SampledFrom([]string{"e", "E"}).Draw(rt, "x.marker"))
	if e < 0 {
		sb.WriteByte('-')
		e = -e
	} else if rapid.Bool().Draw(rt, "x.plus") {
		sb.WriteByte('+')
	}
	if rapid.IntRange(0, 5).Draw(rt, "x.lz") == 0 {
		sb.WriteString(zeros(rapid.IntRange(1, 3).Draw(rt, "x.lzn")))
	}
	sb.WriteString(fmt.Sprint(e))
	return sb.String()
}

func spellHex(rt *rapid.T, v *big.Int) string {
	digits := numref.Hex0x(v)[2:]
	switch rapid.IntRange(0, 3).Draw(rt, "h.case") {
	case 0:
	case 1:
		digits = strings.ToUpper(digits)
	default:
		b := []byte(digits)
		mask := rapid.SliceOfN(rapid.Bool(), len(b), len(b)).Draw(rt, "h.mask")
		for i := range b {
			if mask[i] && b[i] >= 'a' && b[i] <= 'f' {
				b[i] -= 'a' - 'A'
			}
		}
		digits = string(b)
	}
	switch rapid.IntRange(0, 5).Draw(rt, "h.lz") {
	case 0:
		digits = zeros(rapid.IntRange(1, 4).Draw(rt, "h.lzn")) + digits
	case 1:
		if len(digits) < 64 {
			digits = zeros(64-len(digits)) + digits
		}
	}
	prefix := "0x"
	if rapid.IntRange(0, 4).Draw(rt, "h.X") == 0 {
		prefix = "0X"
	}
	return prefix + digits
}

// spellFloatInteger writes the integer v with a fraction and/or an exponent.
func spellFloatInteger(rt *rapid.T, v *big.Int) string {
	dec := v.String()
	if v.Sign() == 0 {
		return rapid.SampledFrom([]string{"0.0", "0e0", "0E5", "0.000", "0e-3", "0.00e+10", "0.0e-0", "0e1000"}).Draw(rt, "f.zero")
	}
	sig := strings.TrimRight(dec, "0")
	tz := len(dec) - len(sig)
	switch rapid.IntRange(0, 5).Draw(rt, "f.style") {
	case 0: // v.000
		return dec + "." + zeros(rapid.SampledFrom(padChoices).Draw(rt, "f.pad"))
	case 1: // normalised scientific
		m := sig[:1]
		if len(sig) > 1 {
			m += "." + sig[1:]
		} else if rapid.Bool().Draw(rt, "f.dot0") {
			m += ".0"
		}
		if rapid.IntRange(0, 3).Draw(rt, "f.padq") == 0 && strings.Contains(m, ".") {
			m += zeros(rapid.SampledFrom(padChoices).Draw(rt, "f.pad"))
		}
		return m + expPart(rt, len(dec)-1)
	case 2: // some trailing zeros moved to the exponent
		t := rapid.IntRange(0, tz).Draw(rt, "f.t")
		return dec[:len(dec)-t] + expPart(rt, t)
	case 3: // decimal point anywhere
		p := rapid.IntRange(1, len(dec)).Draw(rt, "f.p")
		frac := dec[p:]
		if rapid.IntRange(0, 2).Draw(rt, "f.padq") == 0 {
			frac += zeros(rapid.SampledFrom(padChoices).Draw(rt, "f.pad"))
		}
		if frac == "" {
			return dec[:p] + expPart(rt, 0)
		}
		return dec[:p] + "." + frac + expPart(rt, len(dec)-p)
	case 4: // negative exponent cancelling appended zeros
		k := rapid.SampledFrom(padChoices).Draw(rt, "f.k")
		return dec + zeros(k) + expPart(rt, -k)
	default: // 0.000ddd e+N
		z := rapid.SampledFrom([]int{0, 0, 1, 2, 5, 17, 40, 60, 100}).Draw(rt, "f.z")
		tail := ""
		if rapid.IntRange(0, 3).Draw(rt, "f.tailq") == 0 {
			tail = zeros(rapid.IntRange(1, 20).Draw(rt, "f.tail"))
		}
		return "0." + zeros(z) + dec + tail + expPart(rt, z+len(dec))
	}
}

// spellFraction writes a non-integer close to v.
func spellFraction(rt *rapid.T, v *big.Int) string {
	dec := v.String()
	nz := func(label string) string { return fmt.Sprint(rapid.IntRange(1, 9).Draw(rt, label)) }
	switch rapid.IntRange(0, 6).Draw(rt, "q.style") {
	case 0: // v.000…0d — the fraction may lie far beyond any fixed precision
		z := rapid.SampledFrom(append([]int{0, 200, 330, 700}, padChoices...)).Draw(rt, "q.z")
		return dec + "." + zeros(z) + nz("q.d")
	case 1: // v.random digits
		n := rapid.IntRange(0, 30).Draw(rt, "q.n")
		var sb strings.Builder
		for i := 0; i < n; i++ {
			sb.WriteByte(byte('0' + rapid.IntRange(0, 9).Draw(rt, "q.digit")))
		}
		return dec + "." + sb.String() + nz("q.d")
	case 2: // v.5, v.25, ...
		return dec + "." + rapid.SampledFrom([]string{"5", "25", "75", "125", "1", "9", "99999999999999999999", "000000000000000000001"}).Draw(rt, "q.half")
	case 3: // scientific with an exponent one (or more) too small
		sig := strings.TrimRight(dec, "0") + nz("q.d")
		short := rapid.SampledFrom([]int{1, 1, 2, 5, 50}).Draw(rt, "q.short")
		return sig[:1] + "." + sig[1:] + expPart(rt, len(sig)-1-short)
	case 4: // negative exponent that does not divide
		sig := strings.TrimRight(dec, "0")
		if sig == "" {
			sig = "1"
		}
		return sig + expPart(rt, -rapid.SampledFrom([]int{1, 2, 17, 60, 78, 100, 400, 4000}).Draw(rt, "q.k"))
	case 5: // tiny
		return rapid.SampledFrom([]string{"0.1", "0.5", "1e-1", "1e-18", "1E-400", "0." + zeros(80) + "1", "0." + zeros(119) + "1", "9e-78", "0.999999999999999999999999999999"}).Draw(rt, "q.tiny")
	default: // fraction + exponent that leaves digits behind the point
		f := rapid.IntRange(2, 40).Draw(rt, "q.f")
		var sb strings.Builder
		for i := 0; i < f-1; i++ {
			sb.WriteByte(byte('0' + rapid.IntRange(0, 9).Draw(rt, "q.digit")))
		}
		return dec + "." + sb.String() + nz("q.d") + expPart(rt, rapid.IntRange(0, f-1).Draw(rt, "q.e"))
	}
}

// spellOddity writes v in a way only Go's literal syntax gives a meaning to (Unspecified).
func spellOddity(rt *rapid.T, v *big.Int) string {
	dec := v.String()
	switch rapid.IntRange(0, 11).Draw(rt, "o.style") {
	case 0:
		return "0" + dec
	case 1:
		return "0b" + v.Text(2)
	case 2:
		return "0o" + v.Text(8)
	case 3:
		if len(dec) > 1 {
			return dec[:1] + "_" + dec[1:]
		}
		return dec + "_0"
	case 4:
		return "+" + dec
	case 5:
		return " " + dec
	case 6:
		return dec + rapid.SampledFrom([]string{" ", "\n", "\t", "\r\n"}).Draw(rt, "o.ws")
	case 7:
		return dec + "."
	case 8:
		return "." + dec + "e" + fmt.Sprint(len(dec))
	case 9:
		return dec + "p" + fmt.Sprint(rapid.IntRange(0, 70).Draw(rt, "o.p"))
	case 10:
		return "0x" + v.Text(16) + "p" + fmt.Sprint(rapid.IntRange(-8, 8).Draw(rt, "o.p"))
	default:
		return "0x_" + v.Text(16)
	}
}

// fixedTexts: the literals of the repository's tests, of DESIGN.md and hostile constants.
var fixedTexts = []string{
	"", " ", "\t", "0", "-0", "1", "-1", "0x", "0X", "0x0", "0xGG", "0xabcd1234", "54321", "12345", "-12345", "18446744073709551616", "18446744073709551615",
	"1.0000000000000000000000001e+25", "10000000000000000000000000000001", "20000000000000000000000000000002", "3.0000000000000000000000000000003",
	"1e18", "1.5e3", "12.0", "1e-1", "1.5", "1E+2", "100e-2", "0.5e1", "1e77", "1e78", "1.8446744073709551615e19", "1.8446744073709551616e19", "9007199254740993", "9.007199254740993e15",
	"abc", "ff", "1e", "1e+", "e5", "--1", "+-1", "-+1", "- 1", "1 2", "1,000", "1/2", "6/2", "-6/2", "0x10/0x2", "1e2/1", "Inf", "+Inf", "-Inf", "inf", "NaN", "nan", "null", "true", "{}", "[]", "\"12\"",
	"0x-1", "-0x1", "-0x0", "0x1.8", ".", "-", "+", "1.2.3", "1e5e5", "١٢٣", "１２", "12\x00", "0x1p", "1__0", "0_", "_0", "0b", "0o", "0b2", "0o8", "1e1_0",
	"010", "00", "0b101", "0o17", "1_000", "+5", " 5", "5 ", "5.", ".5", "1p4", "0x1p4", "0x_ff",
}

// fixedDocs: JSON documents (and non-documents) for kind "doc".
var fixedDocs = []string{
	`12345`, `"54321"`, `"0xabcd1234"`, `"0x"`, `{}`, `[]`, `[1]`, `{"a":1}`, `true`, `false`, `null`, ` null `, `""`, `" "`, ` 12 `, "\n12\t", `-1`, `"-1"`, `-0`, `1e18`, `1E18`, `1.5e3`, `12.0`, `1e-1`, `1.5`,
	`18446744073709551615`, `18446744073709551616`, `1.8446744073709551616e19`, `9007199254740993`, `01`, `+1`, `0x10`, `.5`, `1.`, `--1`, `"abc`, ``, ` `, `1 2`, `12,`, `1e`, `{!badJSON`, `"12"`, `"1e3"`, `"\u0000"`,
	`"12" x`, `12 13`, `"0x1F"`, `"0X1f"`, `1.000000000000000000000000000000000000000000000000000000000000000000000000000000000000000000000001`,
}

// eip55Vectors: EIP-55's own test vectors plus the addresses spelled out in the repository's tests.
var eip55Vectors = []string{
	"0x52908400098527886E0F7030069857D2E4169EE7", "0x8617E340B3D01FA5F11F306F4090FD50E238070D",
	"0xde709f2102306220921060314715629080e2fb77", "0x27b1fdb04752bbc536007a920d24acb045561c26",
	"0x5aAeb6053F3E94C9b9A09f33669435E7Ef1BeAed", "0xfB6916095ca1df60bB79Ce92cE3Ea74c37c5d359",
	"0xdbF03B407c01E7cD3CBea99509d93f8DDDC8C6FB", "0xD1220A0cf47c7B9Be7A2E6BA89F429762e7b9aDb",
	"0x3CCb85578722B5B9250C1a76b4967166a6Ff7B8b", "0x162534E1aE19712499CE4CB05263D074D7F7aF90", "0x497EEdc4299Dea2f2A364Be10025d0aD0f702De3",
}

// deterministicSpellings of a non-negative value (no random choices): used for the anchor
// table and as fuzz seeds.
func deterministicSpellings(v *big.Int) []string {
	dec := v.String()
	hx := numref.Hex0x(v)[2:]
	out := []string{
		dec, "0x" + hx, "0X" + strings.ToUpper(hx), "0x000" + hx, dec + ".0", dec + "." + zeros(30), dec + "." + zeros(100), dec + "e0", dec + "E+0", dec + "00e-2",
		dec + ".5", dec + "." + zeros(16) + "1", dec + "." + zeros(59) + "1", dec + "." + zeros(79) + "1", dec + "." + zeros(118) + "1",
	}
	if v.Sign() != 0 {
		sig := strings.TrimRight(dec, "0")
		m := sig[:1]
		if len(sig) > 1 {
			m += "." + sig[1:]
		}
		out = append(out, m+"e"+fmt.Sprint(len(dec)-1), m+"E+"+fmt.Sprint(len(dec)-1), "0."+dec+"e"+fmt.Sprint(len(dec)), "0."+zeros(50)+dec+"e"+fmt.Sprint(50+len(dec)))
		if len(sig) > 1 {
			out = append(out, m+"e"+fmt.Sprint(len(dec)-2)) // one short: not an integer unless trailing zeros help
		}
		out = append(out, sig+"e-1")
	}
	return out
}

const soupAlphabet = "0123456789abcdefABCDEFxXeEpP+-._ /,ob"

func mutateText(rt *rapid.T, s string) string {
	// cases are stored as JSON: keep them valid UTF-8 even when a cut falls inside a rune
	return strings.ToValidUTF8(mutateRaw(rt, s), "?")
}

func mutateRaw(rt *rapid.T, s string) string {
	ins := rapid.SampledFrom([]string{"g", "x", "z", ",", "/", " ", "e", "-", "+", ".", "_", "0x", "\x00", "é", "٣", "e5", "/1", "\t"}).Draw(rt, "m.ins")
	pos := rapid.IntRange(0, len(s)).Draw(rt, "m.pos")
	switch rapid.IntRange(0, 2).Draw(rt, "m.op") {
	case 0:
		return s[:pos] + ins + s[pos:]
	case 1:
		if pos < len(s) {
			return s[:pos] + ins + s[pos+1:]
		}
		return s + ins
	default:
		if pos < len(s) {
			return s[:pos] + s[pos+1:]
		}
		return s
	}
}

// genIntText draws one numeric (or not so numeric) text and says how it was made.
func genIntText(rt *rapid.T) (string, string) {
	mode := rapid.IntRange(0, 19).Draw(rt, "mode")
	sign := ""
	if rapid.IntRange(0, 5).Draw(rt, "neg") == 0 {
		sign = "-"
	}
	switch {
	case mode < 5:
		return sign + spellFloatInteger(rt, genValue(rt)), "integer-as-float"
	case mode < 9:
		return sign + spellFraction(rt, genValue(rt)), "fraction"
	case mode < 12:
		return sign + spellHex(rt, genValue(rt)), "hex"
	case mode < 15:
		return sign + genValue(rt).String(), "decimal"
	case mode < 16:
		return sign + spellOddity(rt, genValue(rt)), "go-oddity"
	case mode < 17:
		return rapid.SampledFrom(fixedTexts).Draw(rt, "fixed"), "fixed"
	case mode < 19:
		var base string
		switch rapid.IntRange(0, 3).Draw(rt, "mbase") {
		case 0:
			base = genValue(rt).String()
		case 1:
			base = spellHex(rt, genValue(rt))
		case 2:
			base = spellFloatInteger(rt, genValue(rt))
		default:
			base = spellFraction(rt, genValue(rt))
		}
		return mutateText(rt, sign+base), "mutant"
	default:
		n := rapid.IntRange(0, 12).Draw(rt, "soup.n")
		b := make([]byte, n)
		for i := range b {
			b[i] = soupAlphabet[rapid.IntRange(0, len(soupAlphabet)-1).Draw(rt, "soup.c")]
		}
		return string(b), "alphabet-soup"
	}
}

func pad(rt *rapid.T, doc string) string {
	ws := []string{"", "", "", " ", "\n", "\t", "\r\n ", "  "}
	return rapid.SampledFrom(ws).Draw(rt, "ws.l") + doc + rapid.SampledFrom(ws).Draw(rt, "ws.r")
}

// genDoc draws a JSON document (or a non-document) for the integer types.
func genDoc(rt *rapid.T) (string, string) {
	mode := rapid.IntRange(0, 9).Draw(rt, "mode")
	switch {
	case mode < 3:
		text, _ := genIntText(rt)
		return pad(rt, text), "bare-text"
	case mode < 6:
		text, _ := genIntText(rt)
		b, _ := json.Marshal(text)
		doc := string(b)
		if rapid.IntRange(0, 3).Draw(rt, "esc") == 0 && text != "" {
			// \uXXXX escapes for every character: the same string to a JSON reader
			var sb strings.Builder
			sb.WriteByte('"')
			for _, r := range text {
				if r > 0xffff {
					sb.WriteString(string(r))
				} else {
					fmt.Fprintf(&sb, `\u%04x`, r)
				}
			}
			sb.WriteByte('"')
			doc = sb.String()
		}
		return pad(rt, doc), "string"
	case mode < 7:
		return pad(rt, rapid.SampledFrom([]string{`{}`, `[]`, `[1]`, `["1"]`, `{"a":1}`, `true`, `false`, `null`, `[[]]`, `{"0x1":"0x1"}`}).Draw(rt, "other")), "non-scalar"
	case mode < 8:
		return rapid.SampledFrom(fixedDocs).Draw(rt, "fixed"), "fixed"
	default:
		text, _ := genIntText(rt)
		b, _ := json.Marshal(text)
		return mutateText(rt, string(b)), "mutant"
	}
}

func spellBytes(rt *rapid.T, b []byte) (string, string) {
	h := numref.LowerHex(b)
	how := "lower"
	switch rapid.IntRange(0, 4).Draw(rt, "s.case") {
	case 0:
	case 1:
		h, how = strings.ToUpper(h), "upper"
	case 2:
		if len(b) == 20 {
			h, how = numref.EIP55(b)[2:], "eip55"
		}
	default:
		hb := []byte(h)
		// a drawn mask for the first 64 digits, a drawn period for the rest
		n := len(hb)
		if n > 64 {
			n = 64
		}
		mask := rapid.SliceOfN(rapid.Bool(), n, n).Draw(rt, "s.mask")
		period := rapid.IntRange(2, 7).Draw(rt, "s.period")
		for i := range hb {
			up := false
			if i < n {
				up = mask[i]
			} else {
				up = i%period == 0
			}
			if up && hb[i] >= 'a' && hb[i] <= 'f' {
				hb[i] -= 'a' - 'A'
			}
		}
		h, how = string(hb), "mixed"
	}
	switch rapid.IntRange(0, 9).Draw(rt, "s.prefix") {
	case 0, 1, 2, 3:
		return h, how + "/plain"
	case 4:
		return "0X" + h, how + "/0X"
	default:
		return "0x" + h, how + "/0x"
	}
}

func breakHex(rt *rapid.T, text string) (string, string) {
	body, prefix := text, ""
	if strings.HasPrefix(text, "0x") || strings.HasPrefix(text, "0X") {
		body, prefix = text[2:], text[:2]
	}
	switch rapid.IntRange(0, 7).Draw(rt, "b.op") {
	case 0: // drop one digit: odd length
		if len(body) > 0 {
			p := rapid.IntRange(0, len(body)-1).Draw(rt, "b.pos")
			return prefix + body[:p] + body[p+1:], "odd(drop)"
		}
		return prefix + "0", "odd(add)"
	case 1: // add one digit
		return prefix + body + rapid.SampledFrom([]string{"0", "a", "F"}).Draw(rt, "b.d"), "odd(add)"
	case 2: // non-hex character replaces a digit
		bad := rapid.SampledFrom([]string{"g", "G", "x", "z", " ", "-", "_", "+", ".", "\x00", "é", "/", ":", "@", "`"}).Draw(rt, "b.bad")
		if len(body) > 0 {
			p := rapid.IntRange(0, len(body)-1).Draw(rt, "b.pos")
			return prefix + body[:p] + bad + body[p+1:], "non-hex(replace)"
		}
		return prefix + bad + bad, "non-hex(replace)"
	case 3: // doubled prefix
		return "0x" + prefix + body, "double-prefix"
	case 4: // surrounding white space
		if rapid.Bool().Draw(rt, "b.lead") {
			return " " + text, "white-space"
		}
		return text + rapid.SampledFrom([]string{" ", "\n"}).Draw(rt, "b.ws"), "white-space"
	case 5: // prefix in the wrong place
		return body + "0x", "suffix-0x"
	case 6: // two non-hex characters appended (length stays even)
		return text + rapid.SampledFrom([]string{"zz", "0x", "0g", "g0", "  "}).Draw(rt, "b.tail"), "non-hex(tail)"
	default:
		return prefix + "x" + body, "stray-x"
	}
}

// genAddrText draws an address text: a 20-byte value (or a neighbour) in any spelling, or a broken one.
func genAddrText(rt *rapid.T) (string, string) {
	mode := rapid.IntRange(0, 19).Draw(rt, "mode")
	n := 20
	how := "20B"
	switch {
	case mode < 10:
	case mode < 12:
		n, how = 19, "19B"
	case mode < 14:
		n, how = 21, "21B"
	case mode < 15:
		n = rapid.SampledFrom([]int{0, 1, 10, 18, 22, 32, 40}).Draw(rt, "len")
		how = "otherB"
	}
	var b []byte
	if n == 20 && rapid.IntRange(0, 7).Draw(rt, "special") == 0 {
		s := rapid.SampledFrom(append([]string{"0x" + zeros(40), "0x" + strings.Repeat("f", 40), "0x" + strings.Repeat("0a", 20), "0x" + zeros(39) + "1"}, eip55Vectors...)).Draw(rt, "vector")
		b, _, _ = numref.ParseHexBytes(s)
	} else {
		b = gen.Bytes(rt, "addr", n)
	}
	text, sp := spellBytes(rt, b)
	if mode >= 15 {
		var op string
		text, op = breakHex(rt, text)
		return text, "broken:" + op
	}
	return text, how + "/" + sp
}

// genBytesText draws a byte-string text of up to 1 KiB (and a little beyond).
func genBytesText(rt *rapid.T) (string, string) {
	mode := rapid.IntRange(0, 9).Draw(rt, "mode")
	n := gen.Len(rt, "len", 1100)
	if rapid.IntRange(0, 9).Draw(rt, "kib") == 0 {
		n = rapid.SampledFrom([]int{1023, 1024, 1025}).Draw(rt, "kiblen")
	}
	b := gen.Bytes(rt, "bytes", n)
	text, sp := spellBytes(rt, b)
	if mode >= 7 {
		var op string
		text, op = breakHex(rt, text)
		return text, "broken:" + op
	}
	return text, sp
}
