package c19

import (
	"context"
	"encoding/json"
	"fmt"
	"math/big"

	"github.com/hyperledger/firefly-signer/pkg/ethtypes"

	"verifharness/evid"
	"verifharness/ref/numref"
)

// ---------------------------------------------------------------------------------------
// kind "seq": a HISTORY of parses. Every value a parse returned must still be the value
// the text denotes after any number of later parses (results must not alias storage that
// later calls reuse), and re-parsing the same text later must give the same answer.
// Oracle: ref/numref denotation + the snapshot taken immediately after each call.
// ---------------------------------------------------------------------------------------

type SeqCase struct {
	Texts []string `json:"texts"`
}

type kept struct {
	text  string
	via   string
	snap  string // decimal value immediately after the call
	live  func() *big.Int
	den   numref.Denotation
	isInt bool
}

// intHolder is decoded into again and again (one variable for the whole history).
type intHolder struct {
	V ethtypes.HexInteger   `json:"v"`
	P *ethtypes.HexInteger  `json:"p"`
	L []ethtypes.HexInteger `json:"l"`
}

func judgeSeq(c SeqCase) (vs []evid.Violation) {
	var keep []kept
	ctx := context.Background()
	// targets that are RE-USED by every parse of the history; what is kept of them are value copies
	// (the way a caller stores a HexInteger in its own struct), which later parses must not reach
	var sameHI ethtypes.HexInteger
	var samePtr *ethtypes.HexInteger
	var sameHolder intHolder
	keepCopy := func(text, via string, d numref.Denotation, cp ethtypes.HexInteger) {
		h := &cp
		keep = append(keep, kept{text: text, via: via, snap: h.BigInt().String(), live: func() *big.Int { return h.BigInt() }, den: d})
	}
	for _, text := range c.Texts {
		d := numref.Classify(text)
		if expensive(text, d) {
			continue
		}
		{
			doc, _ := json.Marshal(text)
			if err := json.Unmarshal(doc, &sameHI); err == nil {
				keepCopy(text, "copy of a re-used HexInteger variable", d, sameHI)
			}
			if err := json.Unmarshal(doc, &samePtr); err == nil && samePtr != nil {
				keepCopy(text, "copy of a re-used *HexInteger target", d, *samePtr)
			}
			hdoc := []byte(`{"v":` + string(doc) + `,"p":` + string(doc) + `,"l":[` + string(doc) + `,` + string(doc) + `]}`)
			if err := json.Unmarshal(hdoc, &sameHolder); err == nil && sameHolder.P != nil && len(sameHolder.L) == 2 {
				keepCopy(text, "copy of field V of a struct decoded again and again", d, sameHolder.V)
				keepCopy(text, "copy of field *P of a struct decoded again and again", d, *sameHolder.P)
				keepCopy(text, "copy of element L[0] of a struct decoded again and again", d, sameHolder.L[0])
				keepCopy(text, "copy of element L[1] of a struct decoded again and again", d, sameHolder.L[1])
			}
		}
		if bi, err := ethtypes.BigIntegerFromString(ctx, text); err == nil && bi != nil {
			b := bi
			keep = append(keep, kept{text: text, via: "BigIntegerFromString", snap: b.String(), live: func() *big.Int { return b }, den: d})
		}
		doc, _ := json.Marshal(text)
		var hi ethtypes.HexInteger
		if err := json.Unmarshal(doc, &hi); err == nil {
			h := &hi
			keep = append(keep, kept{text: text, via: "HexInteger(json string)", snap: h.BigInt().String(), live: func() *big.Int { return h.BigInt() }, den: d})
		}
		var hp *ethtypes.HexInteger
		if err := json.Unmarshal(doc, &hp); err == nil && hp != nil {
			h := hp
			keep = append(keep, kept{text: text, via: "*HexInteger(json string)", snap: h.BigInt().String(), live: func() *big.Int { return h.BigInt() }, den: d})
		}
		if d.Form == numref.FormFloat || d.Form == numref.FormDecimal {
			if json.Valid([]byte(text)) {
				var hn ethtypes.HexInteger
				if err := json.Unmarshal([]byte(text), &hn); err == nil {
					h := &hn
					keep = append(keep, kept{text: text, via: "HexInteger(json number)", snap: h.BigInt().String(), live: func() *big.Int { return h.BigInt() }, den: d})
				}
			}
		}
		var hu ethtypes.HexUint64
		if err := json.Unmarshal(doc, &hu); err == nil {
			v := hu
			keep = append(keep, kept{text: text, via: "HexUint64(json string)", snap: new(big.Int).SetUint64(v.Uint64()).String(), live: func() *big.Int { return new(big.Int).SetUint64(v.Uint64()) }, den: d})
		}
	}
	for i, k := range keep {
		now := k.live().String()
		if now != k.snap {
			vs = append(vs, evid.V("result-stable-across-calls", "result %d (%s of %s) was %s right after the call and reads %s after later parses", i, k.via, shortText(k.text), k.snap, now))
			continue
		}
		if k.den.Class == numref.Integer && k.den.Value != nil && k.den.Value.String() != now {
			vs = append(vs, evid.V("result-exact", "%s of %s holds %s, the text denotes %s", k.via, shortText(k.text), now, k.den.Value))
		}
	}
	// determinism: the same text parsed again at the end gives the same verdict and value
	for _, text := range c.Texts {
		d := numref.Classify(text)
		if expensive(text, d) {
			continue
		}
		a, errA := ethtypes.BigIntegerFromString(ctx, text)
		b, errB := ethtypes.BigIntegerFromString(ctx, text)
		if (errA == nil) != (errB == nil) || (errA == nil && a.Cmp(b) != 0) {
			vs = append(vs, evid.V("deterministic", "two parses of %s differ: %v/%v vs %v/%v", shortText(text), a, errA, b, errB))
		}
	}
	return vs
}

var _ = fmt.Sprintf
