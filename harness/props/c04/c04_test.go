// Package c04 decides property C04 (the EIP-712 digest equals the specification
// for every type graph and message) by generated-input search against the
// independent reference ref/eip712ref and the independent curve arithmetic in
// ref/secp.
package c04

import (
	"bytes"
	"context"
	"encoding/hex"
	"encoding/json"
	"fmt"
	"io"
	"math/big"
	"os"
	"path/filepath"
	"sort"
	"strings"
	"sync"
	"testing"

	"github.com/hyperledger/firefly-signer/pkg/abi"
	"github.com/hyperledger/firefly-signer/pkg/eip712"
	"github.com/hyperledger/firefly-signer/pkg/ethsigner"
	"github.com/hyperledger/firefly-signer/pkg/ethtypes"
	"github.com/hyperledger/firefly-signer/pkg/fswallet"
	"github.com/hyperledger/firefly-signer/pkg/keystorev3"
	"github.com/hyperledger/firefly-signer/pkg/secp256k1"
	"github.com/sirupsen/logrus"
	"pgregory.net/rapid"

	"verifharness/evid"
	"verifharness/gen"
	"verifharness/props/c04/tdgen"
	"verifharness/ref/eip712ref"
	"verifharness/ref/secp"
)

const rule = "document whose type graph has >= 2 struct types and at least one of: an array of structs, a (self/mutually) recursive type, " +
	"an absent struct reference (null, omitted, or null inside an array), a domain other than the full standard four fields (incl. no EIP712Domain type, primaryType = EIP712Domain); " +
	"ABI cases: tuple with >= 2 struct types; histories: at least one document (or in-place edit) related to an earlier one of the same history " +
	"(same domain values / other EIP712Domain type, same message / other member types or order, same struct names / other members, same types / other values or primary type, the same document again); " +
	"shared: the document rule, one decoded payload hashed by 4..16 goroutines at once; distinct by hash of the case (all rendered JSON texts + key)"

func init() {
	logrus.SetOutput(io.Discard)
}

// ---- kind "doc"

// DocCase is a well-formed typed-data document rendered several ways.  Docs[0]
// is the base text; every other text is the same document with permuted object
// keys and/or added unreferenced struct types, pruned unused types, or extra
// message/domain/top-level fields, and must therefore have the same digest.
type DocCase struct {
	Docs []json.RawMessage `json:"docs"`
	Key  string            `json:"key"` // 32-byte private key, hex
}

const evalsPerText = 3

type libHashes struct {
	digest, msg, dom []byte
}

// libHash runs the library on one JSON text: Unmarshal into TypedData,
// EncodeTypedDataV4 (twice on the same payload), HashStruct for message and domain.
func libHash(text []byte, full bool) (h libHashes, td *eip712.TypedData, vs []evid.Violation) {
	ctx := context.Background()
	td = new(eip712.TypedData)
	if err := json.Unmarshal(text, td); err != nil {
		return h, nil, []evid.Violation{evid.V("accept-well-formed", "json.Unmarshal into TypedData failed: %v", err)}
	}
	d, err := eip712.EncodeTypedDataV4(ctx, td)
	if err != nil {
		return h, nil, []evid.Violation{evid.V("accept-well-formed", "EncodeTypedDataV4 rejected a well-formed document: %v", err)}
	}
	h.digest = d
	if !full {
		return h, td, nil
	}
	d2, err := eip712.EncodeTypedDataV4(ctx, td)
	if err != nil || !bytes.Equal(d, d2) {
		vs = append(vs, evid.V("digest-deterministic", "second EncodeTypedDataV4 on the same payload: %x / %v, first %x", []byte(d2), err, []byte(d)))
	}
	if td.PrimaryType != eip712.EIP712Domain {
		m, err := eip712.HashStruct(ctx, td.PrimaryType, td.Message, td.Types)
		if err != nil {
			vs = append(vs, evid.V("hashstruct", "HashStruct(primaryType) failed: %v", err))
		}
		h.msg = m
	}
	types, domain := tdgen.DomainDefaults(td)
	dm, err := eip712.HashStruct(ctx, eip712.EIP712Domain, domain, types)
	if err != nil {
		vs = append(vs, evid.V("hashstruct", "HashStruct(EIP712Domain) failed: %v", err))
	}
	h.dom = dm
	return h, td, vs
}

func judgeDoc(c DocCase) (vs []evid.Violation) {
	if len(c.Docs) == 0 {
		return []evid.Violation{evid.V("harness", "no documents")}
	}
	base := eip712ref.FromJSON(c.Docs[0])
	if base.Status != eip712ref.OK {
		return []evid.Violation{evid.V("harness", "reference does not accept the base document: %s", base.Reason)}
	}
	want := base.Result
	for i, text := range c.Docs {
		if i > 0 {
			rv := eip712ref.FromJSON(text)
			if rv.Status != eip712ref.OK || !bytes.Equal(rv.Result.Digest, want.Digest) {
				return []evid.Violation{evid.V("harness", "variant %d is not the same document in the reference (%v %s)", i, rv.Status, rv.Reason)}
			}
		}
		for e := 0; e < evalsPerText; e++ {
			h, _, hv := libHash(text, e == 0)
			vs = append(vs, hv...)
			if h.digest == nil {
				return vs
			}
			if !bytes.Equal(h.digest, want.Digest) {
				clause := "digest"
				if i > 0 {
					clause = "digest-invariant" // base text may agree while a reordered / extended text does not
				}
				vs = append(vs, evid.V(clause, "text %d eval %d: EncodeTypedDataV4 = %x, EIP-712 reference = %x", i, e, h.digest, want.Digest))
			}
			if want.MessageHash != nil && h.msg != nil && !bytes.Equal(h.msg, want.MessageHash) {
				vs = append(vs, evid.V("hashstruct", "text %d: HashStruct(message) = %x, reference = %x", i, h.msg, want.MessageHash))
			}
			if h.dom != nil && !bytes.Equal(h.dom, want.DomainSeparator) {
				vs = append(vs, evid.V("domain-separator", "text %d: HashStruct(EIP712Domain) = %x, reference = %x", i, h.dom, want.DomainSeparator))
			}
			if len(vs) > 0 {
				return vs
			}
		}
	}
	// signing through a KeyPair (one text per case: the curve arithmetic of the
	// independent recovery dominates the cost), here the last variant
	for _, i := range []int{len(c.Docs) - 1} {
		td := new(eip712.TypedData)
		if err := json.Unmarshal(c.Docs[i], td); err != nil {
			return append(vs, evid.V("harness", "unmarshal: %v", err))
		}
		kb, err := hex.DecodeString(c.Key)
		if err != nil || len(kb) != 32 {
			return append(vs, evid.V("harness", "bad key"))
		}
		kp := secp256k1.KeyPairFromBytes(kb)
		res, err := ethsigner.SignTypedDataV4(context.Background(), kp, td)
		if err != nil {
			return append(vs, evid.V("sign", "SignTypedDataV4 failed: %v", err))
		}
		vs = append(vs, checkSignature(res, want.Digest, kb)...)
	}
	return vs
}

// checkSignature: 65 bytes R‖S‖V, V in {27,28}, Hash == digest, and the
// signature recovers (independent curve code, digest not re-hashed) to the
// address of the key.
func checkSignature(res *ethsigner.EIP712Result, digest []byte, key []byte) (vs []evid.Violation) {
	if res == nil {
		return []evid.Violation{evid.V("sign", "nil result")}
	}
	if !bytes.Equal(res.Hash, digest) {
		vs = append(vs, evid.V("sign-hash", "result Hash = %x, digest = %x", []byte(res.Hash), digest))
	}
	sig := []byte(res.SignatureRSV)
	if len(sig) != 65 {
		return append(vs, evid.V("sign-length", "SignatureRSV has %d bytes", len(sig)))
	}
	v := sig[64]
	if v != 27 && v != 28 {
		return append(vs, evid.V("sign-v", "V byte = %d", v))
	}
	if vi := res.V.BigInt(); !vi.IsInt64() || vi.Int64() != int64(v) {
		vs = append(vs, evid.V("sign-v", "V field %s differs from signature byte %d", vi, v))
	}
	if !bytes.Equal(res.R, sig[0:32]) || !bytes.Equal(res.S, sig[32:64]) {
		vs = append(vs, evid.V("sign-rs-fields", "R/S fields differ from the packed signature"))
	}
	r := new(big.Int).SetBytes(sig[0:32])
	s := new(big.Int).SetBytes(sig[32:64])
	d := new(big.Int).SetBytes(key)
	want := secp.AddressOfKey(d)
	got, ok := secp.RecoverAddress(digest, r, s, uint(v-27))
	if !ok || got != want {
		vs = append(vs, evid.V("sign-recovers", "signature over the digest recovers to %x (ok=%v), signer is %x", got, ok, want))
	}
	// (recovering the signer's address from (r, s, v) over the digest implies that the
	// signature verifies under the signer's public key; no separate Verify needed)
	if r.Sign() == 0 || s.Sign() == 0 || r.Cmp(secp.N) >= 0 || s.Cmp(secp.N) >= 0 {
		vs = append(vs, evid.V("sign-range", "r or s outside [1, n-1]"))
	}
	return vs
}

// ---- kind "history": a sequence of related documents in one process
//
// The documents of a history agree on what a memo could be keyed on — the domain VALUES
// (with another EIP712Domain type over them: another subset of the fields, the others being
// extra fields of the domain object; another member order; another type for a field), the
// MESSAGE (with the members of the primary type declared in another order / with other
// types their values also have), the struct NAMES (with other member lists), the type
// definitions (with another message, another primary type, other domain values) — and
// some are the same document again.
// Some are decoded into a new TypedData, some into one that was hashed before (with and
// without clearing it first), some steps edit a decoded TypedData in place.  The judge
// (tdgen.RunSession) holds every digest against the reference digest of what the variable
// contains at that moment and against a new variable with the same content, keeps every
// returned byte slice and compares it at the end, overwrites it and hashes again.

type HistCase struct {
	Session tdgen.Session `json:"session"`
	Key     string        `json:"key"`
	// FullSig: the last signature is also recovered with the independent curve arithmetic
	// (which costs more than the rest of the history; every signature is held against the digest)
	FullSig bool `json:"fullSig,omitempty"`
}

func judgeHist(c HistCase) []evid.Violation {
	kb, err := hex.DecodeString(c.Key)
	if err != nil || len(kb) != 32 {
		return []evid.Violation{evid.V("harness", "bad key")}
	}
	o := tdgen.Options{Signer: secp256k1.KeyPairFromBytes(kb), PayloadUnchanged: true, HashStruct: true}
	if c.FullSig {
		o.CheckSignature = func(res *ethsigner.EIP712Result, digest []byte) []evid.Violation { return checkSignature(res, digest, kb) }
	}
	return tdgen.RunSession(c.Session, o)
}

var histRelations = []string{"same", "domain-type", "domain-type", "domain-type", "domain-values", "message", "members", "member-types", "member-types", "primary", "unrelated", "edit", "edit"}

func genHistCase(rt *rapid.T) (HistCase, []string, bool) {
	base := tdgen.GenParts(rt, 4)
	cur := base
	held := map[int]*tdgen.Parts{} // what a re-usable variable holds, when that is known to be one well-formed document
	used := map[int]bool{}
	classes := map[string]bool{}
	var steps []tdgen.Step
	related := 0
	via := func(l string) string {
		return rapid.SampledFrom([]string{"", "", "", "hashstruct", "hashstruct", "sign"}).Draw(rt, l+".via")
	}
	place := func(l string, p *tdgen.Parts) {
		st := tdgen.Step{Var: -1, Op: "decode", Doc: p.Text(rt, l), Via: via(l), WellFormed: true}
		switch rapid.IntRange(0, 5).Draw(rt, l+".how") {
		case 0, 1, 2:
			classes["hist:how:new-variable"] = true
		case 3:
			st.Var, st.Op = rapid.IntRange(0, 1).Draw(rt, l+".var"), "reset-decode"
			classes["hist:how:reset-and-decode-into-used-variable"] = used[st.Var]
			held[st.Var] = p
		default:
			st.Var = rapid.IntRange(0, 1).Draw(rt, l+".var")
			if used[st.Var] {
				// encoding/json merges into the maps of the variable: what it then holds is
				// judged for what it is
				st.WellFormed = false
				held[st.Var] = nil
				classes["hist:how:decode-into-used-variable"] = true
			} else {
				held[st.Var] = p
			}
		}
		if st.Var >= 0 {
			used[st.Var] = true
		}
		steps = append(steps, st)
	}
	place("d0", base)
	n := rapid.IntRange(3, 7).Draw(rt, "nDocs")
	for i := 1; i < n; i++ {
		l := fmt.Sprintf("d%d", i)
		from := cur
		if rapid.Bool().Draw(rt, l+".fromBase") {
			from = base
		}
		rel := rapid.SampledFrom(histRelations).Draw(rt, l+".rel")
		if rel == "edit" {
			// in place, on a variable that holds a known document
			var cand []int
			for v := 0; v <= 1; v++ {
				if held[v] != nil {
					cand = append(cand, v)
				}
			}
			if len(cand) == 0 {
				rel = "domain-type"
			} else {
				v := rapid.SampledFrom(cand).Draw(rt, l+".var")
				p := held[v].Clone()
				switch rapid.IntRange(0, 3).Draw(rt, l+".edit") {
				case 3:
					// the declared type of one member is changed in place (its value also has the new type)
					tn, mi, nt, ok := p.RetypeInPlace(rt, l+".rt")
					if !ok {
						steps = append(steps, tdgen.Step{Var: v, Op: "hash", Via: via(l), WellFormed: true})
						classes["hist:edit:hash-again"] = true
						break
					}
					steps = append(steps, tdgen.Step{Var: v, Op: "set-member", Path: []string{tn, fmt.Sprint(mi), "type"}, Value: nt, Via: via(l), WellFormed: true})
					classes["hist:edit:member-type-in-place"] = true
				case 0:
					// another EIP712Domain type over the same values, written into the variable's type set
					q := p.WithDomainType(rt, l+".dt")
					if !q.DomainDefined {
						q.DomainDefined, q.Domain = true, nil
					}
					steps = append(steps, tdgen.Step{Var: v, Op: "set-typedef", Path: []string{eip712ref.DomainType}, Value: typeDefText(q.Domain), Via: via(l), WellFormed: true})
					p = q
					classes["hist:edit:domain-type-in-place"] = true
				default:
					paths, types := p.AtomicPaths()
					if len(paths) == 0 {
						steps = append(steps, tdgen.Step{Var: v, Op: "hash", Via: via(l), WellFormed: true})
						classes["hist:edit:hash-again"] = true
						break
					}
					k := rapid.IntRange(0, len(paths)-1).Draw(rt, l+".path")
					nv := p.NewAtomic(rt, l+".value", types[k])
					p.SetIn(paths[k], nv)
					steps = append(steps, tdgen.Step{Var: v, Op: "set", Path: paths[k], Value: nv.Text(), Via: via(l), WellFormed: true})
					classes["hist:edit:"+paths[k][0]+"-value-in-place"] = true
				}
				held[v] = p
				cur = p
				related++
				classes["hist:rel:edit"] = true
				continue
			}
		}
		var next *tdgen.Parts
		switch rel {
		case "same":
			next = from
		case "domain-type":
			next = from.WithDomainType(rt, l+".dt")
		case "domain-values":
			next = from.WithDomainValues(rt, l+".dv")
		case "message":
			next = from.WithMessage(rt, l+".msg")
		case "members":
			next = from.WithMembers(rt, l+".mem")
		case "member-types":
			next = from.WithMemberTypes(rt, l+".mt")
		case "primary":
			next = from.WithPrimary(rt, l+".pt")
		default:
			next = tdgen.GenParts(rt, 3)
		}
		if rel != "unrelated" {
			related++
		}
		classes["hist:rel:"+rel] = true
		place(l, next)
		cur = next
	}
	var cl []string
	for c, on := range classes {
		if on {
			cl = append(cl, c)
		}
	}
	cl = append(cl, fmt.Sprintf("hist:steps:%d", len(steps)))
	sort.Strings(cl)
	return HistCase{Session: tdgen.Session{Steps: steps}, Key: genKey(rt), FullSig: rapid.IntRange(0, 3).Draw(rt, "fullSig") == 0}, cl, related >= 1
}

func typeDefText(ms []eip712ref.Member) string {
	a := &eip712ref.JNode{Kind: 'a'}
	for _, m := range ms {
		a.Vals = append(a.Vals, eip712ref.JObj().Set("name", eip712ref.JStr(m.Name)).Set("type", eip712ref.JStr(m.Type)))
	}
	return a.Text()
}

// ---- kind "wallet": the same through the filesystem wallet

type WalletCase struct {
	Doc      json.RawMessage `json:"doc"`
	Key      string          `json:"key"`
	Password string          `json:"password"`
}

func judgeWallet(c WalletCase) (vs []evid.Violation) {
	ref := eip712ref.FromJSON(c.Doc)
	if ref.Status != eip712ref.OK {
		return []evid.Violation{evid.V("harness", "reference does not accept the document: %s", ref.Reason)}
	}
	kb, err := hex.DecodeString(c.Key)
	if err != nil || len(kb) != 32 {
		return []evid.Violation{evid.V("harness", "bad key")}
	}
	dir, err := os.MkdirTemp("", "c04wallet")
	if err != nil {
		return []evid.Violation{evid.V("harness", "%v", err)}
	}
	defer os.RemoveAll(dir)
	addr := secp.AddressOfKey(new(big.Int).SetBytes(kb))
	addrHex := hex.EncodeToString(addr[:])
	kp := secp256k1.KeyPairFromBytes(kb)
	wf := keystorev3.NewWalletFileLight(c.Password, kp)
	if err := os.WriteFile(filepath.Join(dir, addrHex+".key.json"), wf.JSON(), 0o600); err != nil {
		return []evid.Violation{evid.V("harness", "%v", err)}
	}
	if err := os.WriteFile(filepath.Join(dir, addrHex+".pwd"), []byte(c.Password), 0o600); err != nil {
		return []evid.Violation{evid.V("harness", "%v", err)}
	}
	ctx := context.Background()
	w, err := fswallet.NewFilesystemWallet(ctx, &fswallet.Config{
		Path:            dir,
		DisableListener: true,
		SignerCacheSize: "1m",
		SignerCacheTTL:  "1h",
		Filenames:       fswallet.FilenamesConfig{PrimaryMatchRegex: "^((0x)?[0-9a-z]+).key.json$", PasswordExt: ".pwd"},
		Metadata:        fswallet.MetadataConfig{Format: "auto"},
	})
	if err != nil {
		return []evid.Violation{evid.V("harness", "NewFilesystemWallet: %v", err)}
	}
	defer w.Close()
	if err := w.Initialize(ctx); err != nil {
		return []evid.Violation{evid.V("harness", "wallet Initialize: %v", err)}
	}
	td := new(eip712.TypedData)
	if err := json.Unmarshal(c.Doc, td); err != nil {
		return []evid.Violation{evid.V("accept-well-formed", "json.Unmarshal into TypedData failed: %v", err)}
	}
	var from ethtypes.Address0xHex
	copy(from[:], addr[:])
	res, err := w.SignTypedDataV4(ctx, from, td)
	if err != nil {
		return []evid.Violation{evid.V("wallet-sign", "fswallet SignTypedDataV4 failed: %v", err)}
	}
	vs = checkSignature(res, ref.Result.Digest, kb)
	if len(vs) > 0 {
		return vs
	}
	// the same wallet asked again (the signer now comes from its cache), with the same
	// payload value and with a new decode: a signature over the same digest each time, and
	// the first result is still what it was
	first := append([]byte(nil), res.SignatureRSV...)
	for again := 0; again < 2; again++ {
		if again == 1 {
			td = new(eip712.TypedData)
			if err := json.Unmarshal(c.Doc, td); err != nil {
				return []evid.Violation{evid.V("accept-well-formed", "json.Unmarshal into TypedData failed: %v", err)}
			}
		}
		res2, err := w.SignTypedDataV4(ctx, from, td)
		if err != nil || res2 == nil {
			return []evid.Violation{evid.V("wallet-sign", "fswallet SignTypedDataV4 failed when asked again (%d): %v", again, err)}
		}
		if !bytes.Equal(res2.Hash, ref.Result.Digest) {
			vs = append(vs, evid.V("wallet-history", "asked again (%d): hash %x, digest %x", again, []byte(res2.Hash), ref.Result.Digest))
		} else if !bytes.Equal(res2.SignatureRSV, first) {
			// (a signer need not be deterministic: a different signature is judged like the first)
			vs = append(vs, checkSignature(res2, ref.Result.Digest, kb)...)
		}
	}
	if !bytes.Equal(res.SignatureRSV, first) || !bytes.Equal(res.Hash, ref.Result.Digest) {
		vs = append(vs, evid.V("result-stable", "the first signing result changed after later calls"))
	}
	return vs
}

// ---- kind "abi": ABItoTypedDataV4 against the hand-written type set

type ABICase struct {
	Param   json.RawMessage `json:"param"`   // Solidity ABI parameter (tuple with components + internalType)
	Types   json.RawMessage `json:"types"`   // hand-written typed-data types for the same structs
	Primary string          `json:"primary"` // expected primary type
	Message json.RawMessage `json:"message"` // a message of the primary type
}

func typesFromJSON(raw []byte) (eip712ref.Types, error) {
	n, err := eip712ref.ParseJSON(raw)
	if err != nil || n.Kind != 'o' {
		return nil, fmt.Errorf("types: %v", err)
	}
	t := eip712ref.Types{}
	for i, name := range n.Keys {
		var ms []eip712ref.Member
		for _, m := range n.Vals[i].Vals {
			ms = append(ms, eip712ref.Member{Name: m.Get("name").Str, Type: m.Get("type").Str})
		}
		t[name] = ms
	}
	return t, nil
}

func judgeABI(c ABICase) (vs []evid.Violation) {
	hand, err := typesFromJSON(c.Types)
	if err != nil {
		return []evid.Violation{evid.V("harness", "%v", err)}
	}
	// reference hash of the message under the hand-written types
	handDoc := eip712ref.JObj().Set("types", mustParse(c.Types)).Set("primaryType", eip712ref.JStr(c.Primary)).Set("message", mustParse(c.Message))
	ref := eip712ref.FromTree(handDoc)
	if ref.Status != eip712ref.OK {
		return []evid.Violation{evid.V("harness", "reference does not accept the hand-written document: %s", ref.Reason)}
	}
	var p abi.Parameter
	if err := json.Unmarshal(c.Param, &p); err != nil {
		return []evid.Violation{evid.V("harness", "ABI parameter does not unmarshal: %v", err)}
	}
	tc, err := p.TypeComponentTree()
	if err != nil {
		return []evid.Violation{evid.V("harness", "ABI parameter does not parse: %v", err)}
	}
	ctx := context.Background()
	tcBefore := tc.String()
	pt, ts, err := eip712.ABItoTypedDataV4(ctx, tc)
	if err != nil {
		return []evid.Violation{evid.V("abi-accept", "ABItoTypedDataV4 failed: %v", err)}
	}
	derived, vs := compareDerived(pt, ts, c.Primary, hand)
	if len(vs) > 0 {
		return vs
	}
	// the derived set hashes the message like the hand-written one (library and reference)
	derivedDoc := eip712ref.JObj().Set("types", typesNode(derived)).Set("primaryType", eip712ref.JStr(pt)).Set("message", mustParse(c.Message))
	dref := eip712ref.FromTree(derivedDoc)
	if dref.Status != eip712ref.OK || !bytes.Equal(dref.Result.MessageHash, ref.Result.MessageHash) {
		vs = append(vs, evid.V("abi-hash", "reference hashStruct under the derived types differs from the hand-written types (%v %s)", dref.Status, dref.Reason))
	}
	var msg map[string]interface{}
	if err := json.Unmarshal(c.Message, &msg); err != nil {
		return append(vs, evid.V("harness", "message: %v", err))
	}
	for e := 0; e < evalsPerText; e++ {
		got, err := eip712.HashStruct(ctx, pt, msg, ts)
		if err != nil {
			return append(vs, evid.V("abi-hash", "HashStruct with the derived type set failed: %v", err))
		}
		if !bytes.Equal(got, ref.Result.MessageHash) {
			return append(vs, evid.V("abi-hash", "HashStruct with the derived type set = %x, reference over the hand-written types = %x", []byte(got), ref.Result.MessageHash))
		}
	}
	// the derived type set belongs to the caller and the type tree is only read: overwrite
	// every member of the first result, derive again from the same tree, and once more from
	// a new parse of the same parameter — each must be the hand-written set again
	for _, t := range ts {
		for _, m := range t {
			m.Name, m.Type = "overwritten", "overwritten[]"
		}
	}
	for name := range ts {
		ts[name] = nil
	}
	if after := tc.String(); after != tcBefore {
		vs = append(vs, evid.V("abi-input-unchanged", "the type tree reads %q after ABItoTypedDataV4, %q before", after, tcBefore))
	}
	for again := 0; again < 2; again++ {
		if again == 1 {
			var p2 abi.Parameter
			if err := json.Unmarshal(c.Param, &p2); err != nil {
				return append(vs, evid.V("harness", "ABI parameter does not unmarshal: %v", err))
			}
			if tc, err = p2.TypeComponentTree(); err != nil {
				return append(vs, evid.V("harness", "ABI parameter does not parse the second time: %v", err))
			}
		}
		pt2, ts2, err := eip712.ABItoTypedDataV4(ctx, tc)
		if err != nil {
			return append(vs, evid.V("abi-accept", "ABItoTypedDataV4 failed when called again (%d): %v", again, err))
		}
		if _, dv := compareDerived(pt2, ts2, c.Primary, hand); len(dv) > 0 {
			return append(vs, evid.V("abi-history:"+dv[0].Clause, "after the caller overwrote the first derived type set, deriving again (%d) gives: %s", again, dv[0].Detail))
		}
		got, err := eip712.HashStruct(ctx, pt2, msg, ts2)
		if err != nil || !bytes.Equal(got, ref.Result.MessageHash) {
			return append(vs, evid.V("abi-history:abi-hash", "HashStruct with the type set derived again (%d) = %x / %v, reference %x", again, []byte(got), err, ref.Result.MessageHash))
		}
	}
	return vs
}

// compareDerived holds the outcome of ABItoTypedDataV4 against the hand-written type set:
// the primary type, and encodeType of every struct of its closure.
func compareDerived(pt string, ts eip712.TypeSet, primary string, hand eip712ref.Types) (derived eip712ref.Types, vs []evid.Violation) {
	if pt != primary {
		vs = append(vs, evid.V("abi-primary", "primary type %q, want %q", pt, primary))
	}
	derived = eip712ref.Types{}
	for name, t := range ts {
		var ms []eip712ref.Member
		for _, m := range t {
			if m == nil {
				return derived, append(vs, evid.V("abi-types", "nil member in derived type %s", name))
			}
			ms = append(ms, eip712ref.Member{Name: m.Name, Type: m.Type})
		}
		derived[name] = ms
	}
	closure := append([]string{primary}, eip712ref.Dependencies(primary, hand)...)
	for _, name := range closure {
		wantET, _ := eip712ref.EncodeType(name, hand)
		gotET, err := eip712ref.EncodeType(name, derived)
		if err != nil || gotET != wantET {
			vs = append(vs, evid.V("abi-types", "encodeType(%s) over the derived type set = %q (%v), hand-written = %q", name, gotET, err, wantET))
		}
	}
	return derived, vs
}

// ---- kind "shared": ONE decoded payload / type set / ABI type tree used by several goroutines at once
//
// (kind "concurrent" judges independent cases from several goroutines; state that hangs off
// one shared definition is only reached when the callers share that definition.)  Each round
// decodes the document anew — the first use of the fresh objects is part of the race, except
// for a payload without EIP712Domain type / domain object, into which EncodeTypedDataV4
// writes the empty ones: that gets one call before it is shared — and starts Workers goroutines that hash at the same time: the one *TypedData itself, a
// TypedData of their own over the shared type set / domain / message maps, HashStruct over
// the shared type set and message, ABItoTypedDataV4 over one shared type tree.  Every answer
// must be the reference's, and what was shared must be left as it was.

type SharedCase struct {
	Doc     json.RawMessage `json:"doc"`
	ABI     *ABICase        `json:"abi,omitempty"` // also: ABItoTypedDataV4 from one shared type tree
	Workers int             `json:"workers"`
	Rounds  int             `json:"rounds"`
}

func judgeShared(c SharedCase) (vs []evid.Violation) {
	ref := eip712ref.FromJSON(c.Doc)
	if ref.Status != eip712ref.OK {
		return []evid.Violation{evid.V("harness", "reference does not accept the document: %s", ref.Reason)}
	}
	ctx := context.Background()
	var hand eip712ref.Types
	if c.ABI != nil {
		var err error
		if hand, err = typesFromJSON(c.ABI.Types); err != nil {
			return []evid.Violation{evid.V("harness", "%v", err)}
		}
	}
	workers := c.Workers
	if workers < 2 {
		workers = 2
	}
	var mu sync.Mutex
	report := func(v evid.Violation) {
		mu.Lock()
		vs = append(vs, v)
		mu.Unlock()
	}
	for round := 0; round < c.Rounds && len(vs) == 0; round++ {
		td := new(eip712.TypedData)
		if err := json.Unmarshal(c.Doc, td); err != nil {
			return []evid.Violation{evid.V("accept-well-formed", "json.Unmarshal into TypedData failed: %v", err)}
		}
		// EncodeTypedDataV4 fills the empty EIP712Domain type / domain object into a payload that
		// has none: such a payload gets that from one call before it is shared (what is shared
		// is then only read); the others are shared untouched, their first use is part of the race
		if _, declared := td.Types[eip712.EIP712Domain]; !declared || td.Domain == nil {
			if d, err := eip712.EncodeTypedDataV4(ctx, td); err != nil || !bytes.Equal(d, ref.Result.Digest) {
				return []evid.Violation{evid.V("digest", "EncodeTypedDataV4 = %x / %v, reference %x", []byte(d), err, ref.Result.Digest)}
			}
		}
		_, domainDeclared := td.Types[eip712.EIP712Domain]
		before, err := tdgen.Snapshot(td)
		if err != nil {
			return []evid.Violation{evid.V("harness", "%v", err)}
		}
		var tc abi.TypeComponent
		var tcBefore string
		if c.ABI != nil {
			var p abi.Parameter
			if err := json.Unmarshal(c.ABI.Param, &p); err != nil {
				return []evid.Violation{evid.V("harness", "ABI parameter does not unmarshal: %v", err)}
			}
			var err error
			if tc, err = p.TypeComponentTree(); err != nil {
				return []evid.Violation{evid.V("harness", "ABI parameter does not parse: %v", err)}
			}
			tcBefore = tc.String()
		}
		start := make(chan struct{})
		var wg sync.WaitGroup
		for w := 0; w < workers; w++ {
			wg.Add(1)
			go func(w int) {
				defer wg.Done()
				defer func() {
					if p := recover(); p != nil {
						report(evid.V("no-panic", "round %d worker %d: panic: %v", round, w, p))
					}
				}()
				<-start
				mode := (w + round) % 4
				if mode == 3 && tc == nil {
					mode = 2
				}
				switch mode {
				case 0:
					d, err := eip712.EncodeTypedDataV4(ctx, td)
					if err != nil || !bytes.Equal(d, ref.Result.Digest) {
						report(evid.V("shared-payload", "round %d worker %d: EncodeTypedDataV4 on the payload shared by %d goroutines = %x / %v, reference %x", round, w, workers, []byte(d), err, ref.Result.Digest))
					}
				case 1:
					own := &eip712.TypedData{Types: td.Types, PrimaryType: td.PrimaryType, Domain: td.Domain, Message: td.Message}
					d, err := eip712.EncodeTypedDataV4(ctx, own)
					if err != nil || !bytes.Equal(d, ref.Result.Digest) {
						report(evid.V("shared-type-set", "round %d worker %d: EncodeTypedDataV4 on a payload of its own over the type set / domain / message shared by %d goroutines = %x / %v, reference %x", round, w, workers, []byte(d), err, ref.Result.Digest))
					}
				case 2:
					if td.PrimaryType != eip712.EIP712Domain {
						m, err := eip712.HashStruct(ctx, td.PrimaryType, td.Message, td.Types)
						if err != nil || !bytes.Equal(m, ref.Result.MessageHash) {
							report(evid.V("shared-type-set", "round %d worker %d: HashStruct(message) over the shared type set = %x / %v, reference %x", round, w, []byte(m), err, ref.Result.MessageHash))
						}
					} else if domainDeclared {
						m, err := eip712.HashStruct(ctx, eip712.EIP712Domain, td.Domain, td.Types)
						if err != nil || !bytes.Equal(m, ref.Result.DomainSeparator) {
							report(evid.V("shared-type-set", "round %d worker %d: HashStruct(EIP712Domain) over the shared type set = %x / %v, reference %x", round, w, []byte(m), err, ref.Result.DomainSeparator))
						}
					}
				default:
					pt, ts, err := eip712.ABItoTypedDataV4(ctx, tc)
					if err != nil {
						report(evid.V("abi-accept", "round %d worker %d: ABItoTypedDataV4 on the shared type tree failed: %v", round, w, err))
						return
					}
					if _, dv := compareDerived(pt, ts, c.ABI.Primary, hand); len(dv) > 0 {
						report(evid.V("shared-abi-tree:"+dv[0].Clause, "round %d worker %d: %s", round, w, dv[0].Detail))
					}
				}
			}(w)
		}
		close(start)
		wg.Wait()
		// what the goroutines shared was only read
		if after, err := tdgen.Snapshot(td); err != nil || tdgen.Canon(after) != tdgen.Canon(before) {
			report(evid.V("payload-unchanged", "round %d: hashing changed the TypedData / type set the goroutines shared (%v)\nbefore: %s\nafter:  %s", round, err, tdgen.Canon(before), tdgen.Canon(after)))
		}
		if tc != nil && tc.String() != tcBefore {
			report(evid.V("abi-input-unchanged", "round %d: the shared type tree reads %q after ABItoTypedDataV4, %q before", round, tc.String(), tcBefore))
		}
	}
	return vs
}

func mustParse(raw []byte) *eip712ref.JNode {
	n, err := eip712ref.ParseJSON(raw)
	if err != nil {
		return eip712ref.JNull()
	}
	return n
}

func typesNode(t eip712ref.Types) *eip712ref.JNode {
	names := make([]string, 0, len(t))
	for n := range t {
		names = append(names, n)
	}
	sort.Strings(names)
	o := eip712ref.JObj()
	for _, n := range names {
		a := &eip712ref.JNode{Kind: 'a'}
		for _, m := range t[n] {
			a.Vals = append(a.Vals, eip712ref.JObj().Set("name", eip712ref.JStr(m.Name)).Set("type", eip712ref.JStr(m.Type)))
		}
		o.Set(n, a)
	}
	return o
}

// ---- generation glue

func genKey(rt *rapid.T) string {
	for try := 0; ; try++ {
		var b []byte
		if rapid.IntRange(0, 9).Draw(rt, fmt.Sprintf("key.small%d", try)) == 0 {
			b = make([]byte, 32)
			b[31] = byte(rapid.IntRange(1, 255).Draw(rt, fmt.Sprintf("key.lo%d", try)))
		} else {
			b = gen.Bytes(rt, fmt.Sprintf("key%d", try), 32)
		}
		if secp.ValidScalar(new(big.Int).SetBytes(b)) {
			return hex.EncodeToString(b)
		}
	}
}

func docClasses(st *tdgen.Stats) (cl []string, nt bool) {
	cl = append(cl, fmt.Sprintf("structs:%d", st.Structs))
	if st.Reachable >= 2 {
		cl = append(cl, "reachable>=2")
	}
	if st.Reachable >= 4 {
		cl = append(cl, "reachable>=4")
	}
	if st.ArrayOfStructs {
		cl = append(cl, "array-of-structs")
	}
	if st.Recursive {
		cl = append(cl, "recursive-type")
	}
	if st.SelfRecursive {
		cl = append(cl, "self-recursive-type")
	}
	if st.SharedStruct {
		cl = append(cl, "shared-struct")
	}
	if st.AbsentNull > 0 {
		cl = append(cl, "absent:null")
	}
	if st.AbsentOmitted > 0 {
		cl = append(cl, "absent:omitted")
	}
	if st.NullInArray > 0 {
		cl = append(cl, "absent:null-in-array")
	}
	if st.StructValues >= 4 {
		cl = append(cl, "nested-struct-values>=4")
	}
	if st.MaxArrayDepth > 0 {
		cl = append(cl, fmt.Sprintf("array-depth:%d", st.MaxArrayDepth))
	}
	if st.FixedArray {
		cl = append(cl, "fixed-array")
	}
	if st.EmptyArray {
		cl = append(cl, "empty-array")
	}
	if st.EmptyStruct {
		cl = append(cl, "empty-struct-type")
	}
	if st.UnreferencedType {
		cl = append(cl, "unreferenced-type-in-base")
	}
	switch {
	case st.DomainMask < 0:
		cl = append(cl, "domain:no-type")
	case st.DomainMask == 15:
		cl = append(cl, "domain:standard-four")
	case st.DomainMask == 0:
		cl = append(cl, "domain:empty-type")
	case st.DomainMask == 31:
		cl = append(cl, "domain:all-five")
	default:
		cl = append(cl, "domain:other-subset")
	}
	if st.DomainMask >= 16 {
		cl = append(cl, "domain:with-salt")
	}
	if st.DomainShuffled {
		cl = append(cl, "domain:shuffled-members")
	}
	if st.PrimaryIsDomain {
		cl = append(cl, "primary=EIP712Domain")
	}
	for a := range st.Atoms {
		cl = append(cl, "atom:"+a)
	}
	for f := range st.IntForms {
		cl = append(cl, "int-form:"+f)
	}
	sort.Strings(cl)
	absent := st.AbsentNull+st.AbsentOmitted+st.NullInArray > 0
	nt = st.Structs >= 2 && (st.ArrayOfStructs || st.Recursive || absent || st.DomainMask != 15 || st.PrimaryIsDomain)
	return cl, nt
}

// genDocCase draws a document and its variant texts.
func genDocCase(rt *rapid.T) (DocCase, *tdgen.Stats, []string) {
	d := tdgen.GenDoc(rt, 8, true)
	var c DocCase
	var vcl []string
	c.Docs = append(c.Docs, json.RawMessage(d.Root.Text()))
	// 1: same content, permuted keys everywhere
	c.Docs = append(c.Docs, json.RawMessage(tdgen.Shuffled(d.Root, rapid.Uint64().Draw(rt, "shuffle1")).Text()))
	vcl = append(vcl, "variant:key-order")
	if rapid.Bool().Draw(rt, "v.unref") {
		v := tdgen.WithUnreferencedTypes(rt, d.Root)
		c.Docs = append(c.Docs, json.RawMessage(tdgen.Shuffled(v, rapid.Uint64().Draw(rt, "shuffle2")).Text()))
		vcl = append(vcl, "variant:+unreferenced-types")
	}
	if rapid.Bool().Draw(rt, "v.extra") {
		v, n := tdgen.WithExtraFields(rt, d.Root)
		if n > 0 {
			c.Docs = append(c.Docs, json.RawMessage(tdgen.Shuffled(v, rapid.Uint64().Draw(rt, "shuffle3")).Text()))
			vcl = append(vcl, "variant:+extra-fields")
		}
	}
	if d.Stats.UnreferencedType && rapid.Bool().Draw(rt, "v.prune") {
		v, n := tdgen.Pruned(d.Root, d.Types, d.Primary)
		if n > 0 {
			c.Docs = append(c.Docs, json.RawMessage(v.Text()))
			vcl = append(vcl, "variant:-unused-types")
		}
	}
	c.Key = genKey(rt)
	return c, d.Stats, vcl
}

func TestCheck(t *testing.T) {
	rec := evid.Start("C04", rule)
	defer rec.Finish()
	rec.Assume("reference: ref/eip712ref (written from the EIP-712 text with the v4 conventions, anchored to the EIP's Mail example and to the eth-sig-util v4 array example incl. their published signatures); keccak from x/crypto; curve arithmetic for recovery/verification: ref/secp (math/big)")
	rec.Assume("not asserted: struct names that look like elementary types; an absent primary message; members without a value other than struct references; integers >= 2^53 written as JSON numbers (their reading is property C14 — here they are written as strings)")
	rec.Assume("each JSON text is hashed 3 times from a fresh Unmarshal (Go map iteration order inside the library differs between evaluations)")
	rec.Assume("histories (kind history): every hash is judged by the CONTENT of the TypedData variable at that moment (its four exported fields rendered to JSON): reference digest, and the same verdict as a new TypedData with that content; json.Unmarshal into a used variable merges into its maps (encoding/json) — the merged content is what is judged. EncodeTypedDataV4 may fill the empty EIP712Domain type / domain object into a payload that has none (deliberate); any other change of the payload is a violation")
	rec.Assume("shared (kind shared): goroutines share one decoded payload / its type set, domain and message maps / one ABI type tree; a payload without EIP712Domain type or domain object is hashed once before it is shared (EncodeTypedDataV4 writes the defaults into it); concurrent-* kinds: the per-case judges from 4..8 goroutines at once on the heaviest cases")
	kDoc := evid.NewKind(rec, "doc", judgeDoc).DeclareEach()
	cpool := evid.NewPool(rec, "concurrent", judgeDoc, 32).DeclareEach()
	kWallet := evid.NewKind(rec, "wallet", judgeWallet).DeclareEach()
	kABI := evid.NewKind(rec, "abi", judgeABI).DeclareEach()
	kHist := evid.NewKind(rec, "history", judgeHist).DeclareEach()
	kShared := evid.NewKind(rec, "shared", judgeShared).DeclareEach()
	pABI := evid.NewPool(rec, "concurrent-abi", judgeABI, 32).DeclareEach()
	pWallet := evid.NewPool(rec, "concurrent-wallet", judgeWallet, 8).DeclareEach()
	pHist := evid.NewPool(rec, "concurrent-history", judgeHist, 16).DeclareEach()
	rec.Corpus(t)

	atomTypes := map[string]bool{}
	rec.Rapid(t, "doc", rec.N(1500, 15000), func(rt *rapid.T) {
		c, st, vcl := genDocCase(rt)
		cl, nt := docClasses(st)
		for a := range st.AtomTypes {
			atomTypes[a] = true
		}
		cpool.Offer(c)
		kDoc.Check(rt, c, nt, append(cl, vcl...)...)
	})
	rec.Extra("atomic_types_with_message_values", fmt.Sprintf("%d of 100 (shard %d)", len(atomTypes), rec.Shard))

	rec.Rapid(t, "history", rec.N(600, 5000), func(rt *rapid.T) {
		c, cl, nt := genHistCase(rt)
		pHist.Offer(c)
		kHist.Check(rt, c, nt, cl...)
	})

	var abiCases []ABICase

	rec.Rapid(t, "abi", rec.N(500, 4000), func(rt *rapid.T) {
		a := tdgen.GenABI(rt, 5)
		reach := append([]string{a.Primary}, eip712ref.Dependencies(a.Primary, a.Types)...)
		hand := eip712ref.Types{}
		for _, n := range reach {
			hand[n] = a.Types[n]
		}
		c := ABICase{Param: json.RawMessage(a.Param.Text()), Types: json.RawMessage(typesNode(hand).Text()), Primary: a.Primary, Message: json.RawMessage(a.Message.Text())}
		cl := []string{"abi", fmt.Sprintf("abi:structs:%d", len(reach))}
		if a.Alias {
			cl = append(cl, "abi:uint/int-alias")
		}
		if a.Stats.ArrayOfStructs {
			cl = append(cl, "abi:array-of-structs")
		}
		if a.Stats.SharedStruct {
			cl = append(cl, "abi:shared-struct")
		}
		if strings.Contains(string(c.Param), `"struct `+a.Primary+`"`) {
			cl = append(cl, "abi:no-contract-prefix")
		}
		pABI.Offer(c)
		if len(abiCases) < 64 {
			abiCases = append(abiCases, c)
		}
		kABI.Check(rt, c, len(reach) >= 2, cl...)
	})

	rec.Rapid(t, "shared", rec.N(120, 1000), func(rt *rapid.T) {
		// the heaviest of three documents: long hashes overlap
		var d *tdgen.Doc
		for i := 0; i < 3; i++ {
			if x := tdgen.GenDoc(rt, 8, true); d == nil || tdgen.CountNodes(x.Root) > tdgen.CountNodes(d.Root) {
				d = x
			}
		}
		c := SharedCase{Doc: json.RawMessage(d.Root.Text()), Workers: rapid.SampledFrom([]int{4, 8, 16}).Draw(rt, "workers"), Rounds: 3}
		cl := []string{"shared", fmt.Sprintf("shared:workers:%d", c.Workers)}
		if len(abiCases) > 0 && rapid.Bool().Draw(rt, "withABI") {
			a := abiCases[rapid.IntRange(0, len(abiCases)-1).Draw(rt, "abi")]
			c.ABI = &a
			cl = append(cl, "shared:abi-type-tree")
		}
		if d.Stats.DomainMask < 0 {
			cl = append(cl, "shared:no-domain-type")
		} else {
			cl = append(cl, "shared:one-payload")
		}
		_, nt := docClasses(d.Stats)
		kShared.Check(rt, c, nt, cl...)
	})

	rec.Rapid(t, "wallet", rec.N(40, 300), func(rt *rapid.T) {
		d := tdgen.GenDoc(rt, 4, true)
		c := WalletCase{Doc: json.RawMessage(d.Root.Text()), Key: genKey(rt), Password: rapid.StringMatching(`[a-zA-Z0-9]{1,12}`).Draw(rt, "password")}
		_, nt := docClasses(d.Stats)
		pWallet.Offer(c)
		kWallet.Check(rt, c, nt, "wallet")
	})
	cpool.Run(t, 8, 3, 8)
	pABI.Run(t, 8, 3, 16)
	pHist.Run(t, 8, 2, 8)
	pWallet.Run(t, 4, 2, 8)
}

func TestReplay(t *testing.T) {
	rec := evid.Start("C04", rule)
	evid.NewKind(rec, "doc", judgeDoc).DeclareEach()
	evid.NewPool(rec, "concurrent", judgeDoc, 0).DeclareEach()
	evid.NewKind(rec, "wallet", judgeWallet).DeclareEach()
	evid.NewKind(rec, "abi", judgeABI).DeclareEach()
	evid.NewKind(rec, "history", judgeHist).DeclareEach()
	evid.NewKind(rec, "shared", judgeShared).DeclareEach()
	evid.NewPool(rec, "concurrent-abi", judgeABI, 0).DeclareEach()
	evid.NewPool(rec, "concurrent-wallet", judgeWallet, 0).DeclareEach()
	evid.NewPool(rec, "concurrent-history", judgeHist, 0).DeclareEach()
	rec.Replay(t)
}
