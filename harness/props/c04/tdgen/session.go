package tdgen

// Histories of typed-data calls in one process (shared by the C04 and C14 checks).
//
// A Session is a sequence of steps on a few eip712.TypedData variables: decode a JSON
// text into a new variable, decode it into a variable that was used before (with or
// without clearing its exported fields first — encoding/json then merges into the
// existing maps), replace or delete a value of the Domain / Message maps in place, edit a
// type definition in place.  After every step the variable is hashed.
//
// The oracle never looks at what happened before: the CONTENT of the variable at the
// moment it is hashed (its four exported fields, rendered to a JSON tree by Snapshot) is
// handed to the independent reference ref/eip712ref, and — history independence — to a
// new TypedData decoded from that rendering.  A digest (or a rejection) that depends on
// which documents were hashed earlier, in this variable or anywhere else in the process,
// differs from both.  Every byte slice the library returned is kept and compared at the
// end with the copy taken when it was returned, then overwritten, and every variable is
// hashed once more.

import (
	"bytes"
	"context"
	"encoding/json"
	"fmt"
	"sort"
	"strconv"

	"github.com/hyperledger/firefly-signer/pkg/eip712"
	"github.com/hyperledger/firefly-signer/pkg/ethsigner"
	"github.com/hyperledger/firefly-signer/pkg/secp256k1"

	"verifharness/evid"
	"verifharness/ref/eip712ref"
)

// Step is one operation of a Session, followed by hashing the variable.
type Step struct {
	// Var selects the TypedData variable; negative: a new variable used by this step only.
	Var int `json:"var"`
	// Op: "decode" (json.Unmarshal Doc into the variable as it is), "reset-decode" (set the
	// four exported fields to their zero values first), "set" / "del" (Path = "domain" or
	// "message", then object keys / array indexes; Value = JSON text), "set-member" (Path =
	// type name, member index, "name" or "type"; Value = the new string), "set-typedef"
	// (Path = type name; Value = JSON member list), "set-primary" (Value = the new string),
	// "hash" (nothing).
	Op    string   `json:"op"`
	Doc   string   `json:"doc,omitempty"`
	Path  []string `json:"path,omitempty"`
	Value string   `json:"value,omitempty"`
	// Via: "" EncodeTypedDataV4 only, "sign" SignTypedDataV4 on the same variable as well,
	// "hashstruct" HashStruct of the domain and of the message as well.
	Via string `json:"via,omitempty"`
	// WellFormed: the generator built this step so that the variable then holds a well-formed
	// document (the reference must agree, else the harness is at fault).
	WellFormed bool `json:"wellFormed,omitempty"`
}

// Session is a history of steps.
type Session struct {
	Steps []Step `json:"steps"`
}

// Snapshot renders the content of a TypedData value (its exported fields) as a JSON tree:
// what a caller holding the value would say it asks the library to hash.
func Snapshot(td *eip712.TypedData) (*J, error) {
	root := eip712ref.JObj()
	if td.Types != nil {
		names := make([]string, 0, len(td.Types))
		for n := range td.Types {
			names = append(names, n)
		}
		sort.Strings(names)
		tn := eip712ref.JObj()
		for _, n := range names {
			t := td.Types[n]
			if t == nil {
				tn.Set(n, eip712ref.JNull())
				continue
			}
			a := &J{Kind: 'a'}
			for _, m := range t {
				if m == nil {
					a.Vals = append(a.Vals, eip712ref.JNull())
				} else {
					a.Vals = append(a.Vals, eip712ref.JObj().Set("name", eip712ref.JStr(m.Name)).Set("type", eip712ref.JStr(m.Type)))
				}
			}
			tn.Set(n, a)
		}
		root.Set("types", tn)
	}
	root.Set("primaryType", eip712ref.JStr(td.PrimaryType))
	for _, f := range []struct {
		key string
		m   map[string]interface{}
	}{{"domain", td.Domain}, {"message", td.Message}} {
		if f.m == nil {
			continue
		}
		b, err := json.Marshal(f.m)
		if err != nil {
			return nil, fmt.Errorf("%s: %v", f.key, err)
		}
		n, err := eip712ref.ParseJSON(b)
		if err != nil {
			return nil, fmt.Errorf("%s: %v", f.key, err)
		}
		root.Set(f.key, n)
	}
	return root, nil
}

// Canon renders a tree with the keys of every object sorted.
func Canon(n *J) string {
	c := n.Clone()
	var walk func(n *J)
	walk = func(n *J) {
		if n.Kind == 'o' {
			idx := make([]int, len(n.Keys))
			for i := range idx {
				idx[i] = i
			}
			sort.SliceStable(idx, func(a, b int) bool { return n.Keys[idx[a]] < n.Keys[idx[b]] })
			ks, vs := make([]string, len(idx)), make([]*J, len(idx))
			for i, j := range idx {
				ks[i], vs[i] = n.Keys[j], n.Vals[j]
			}
			n.Keys, n.Vals = ks, vs
		}
		for _, v := range n.Vals {
			walk(v)
		}
	}
	walk(c)
	return c.Text()
}

// Normalised applies to a rendering what EncodeTypedDataV4 deliberately writes into the
// payload it is given: an empty EIP712Domain type when the type set has none, an empty
// domain object when there is none.  Nothing else.
func Normalised(n *J) *J {
	c := n.Clone()
	tn := c.Get("types")
	if tn == nil {
		tn = eip712ref.JObj()
		c.Set("types", tn)
	}
	if tn.Kind == 'o' && tn.Get(eip712ref.DomainType) == nil {
		tn.Set(eip712ref.DomainType, &J{Kind: 'a'})
	}
	if c.Get("domain") == nil {
		c.Set("domain", eip712ref.JObj())
	}
	return c
}

// DomainDefaults returns the type set and domain object of the payload for HashStruct of
// the domain: a document without an EIP712Domain type has the empty one, a document
// without a domain object the empty object (the payload itself is left alone).
func DomainDefaults(td *eip712.TypedData) (eip712.TypeSet, map[string]interface{}) {
	types, domain := td.Types, td.Domain
	if _, ok := types[eip712.EIP712Domain]; !ok {
		types = eip712.TypeSet{eip712.EIP712Domain: eip712.Type{}}
		for k, v := range td.Types {
			types[k] = v
		}
	}
	if domain == nil {
		domain = map[string]interface{}{}
	}
	return types, domain
}

func decodeValue(text string) (interface{}, error) {
	d := json.NewDecoder(bytes.NewReader([]byte(text)))
	d.UseNumber()
	var v interface{}
	err := d.Decode(&v)
	return v, err
}

// setPath replaces (or deletes) the value at path inside the Domain / Message maps, in
// place.  It reports whether anything was there to change.
func setPath(td *eip712.TypedData, path []string, v interface{}, del bool) bool {
	if len(path) == 0 {
		return false
	}
	var m *map[string]interface{}
	switch path[0] {
	case "domain":
		m = &td.Domain
	case "message":
		m = &td.Message
	default:
		return false
	}
	if len(path) == 1 {
		if del {
			*m = nil
			return true
		}
		switch x := v.(type) {
		case map[string]interface{}:
			*m = x
			return true
		case nil:
			*m = nil
			return true
		}
		return false
	}
	var cur interface{} = *m
	for _, k := range path[1 : len(path)-1] {
		switch c := cur.(type) {
		case map[string]interface{}:
			cur = c[k]
		case []interface{}:
			i, err := strconv.Atoi(k)
			if err != nil || i < 0 || i >= len(c) {
				return false
			}
			cur = c[i]
		default:
			return false
		}
	}
	last := path[len(path)-1]
	switch c := cur.(type) {
	case map[string]interface{}:
		if c == nil {
			return false
		}
		if del {
			delete(c, last)
		} else {
			c[last] = v
		}
		return true
	case []interface{}:
		i, err := strconv.Atoi(last)
		if err != nil || i < 0 || i >= len(c) || del {
			return false
		}
		c[i] = v
		return true
	}
	return false
}

// Options of RunSession.
type Options struct {
	Signer secp256k1.SignerDirect
	// HashStruct: the exported HashStruct is part of what is judged (steps with Via "hashstruct",
	// and the last hash of every variable).
	HashStruct bool
	// PayloadUnchanged: hashing must leave the four exported fields of the TypedData as they
	// were, apart from the defaults EncodeTypedDataV4 fills in (see Normalised).
	PayloadUnchanged bool
	// CheckSignature (optional) judges a signing result against the digest (applied to the
	// last signature of the session; all others are held against the digest only).
	CheckSignature func(res *ethsigner.EIP712Result, digest []byte) []evid.Violation
}

type keptResult struct {
	step       int
	what       string
	live, snap []byte
}

type sessionRun struct {
	o       Options
	ctx     context.Context
	kept    []keptResult
	fullSig bool // judge signatures with Options.CheckSignature (costly: once per session, at the end)
}

func (r *sessionRun) keep(step int, what string, b []byte) {
	if b != nil {
		r.kept = append(r.kept, keptResult{step, what, b, append([]byte(nil), b...)})
	}
}

// judgeVar hashes the variable and judges the outcome against its content.
func (r *sessionRun) judgeVar(step int, desc string, td *eip712.TypedData, via string, wellFormed bool) (vs []evid.Violation) {
	before, err := Snapshot(td)
	if err != nil {
		return []evid.Violation{evid.V("harness", "step %d (%s): the variable cannot be rendered: %v", step, desc, err)}
	}
	text := before.Text()
	ref := eip712ref.FromTree(before)
	if wellFormed && ref.Status != eip712ref.OK {
		return []evid.Violation{evid.V("harness", "step %d (%s): built as well-formed, reference says %v: %s\n%s", step, desc, ref.Status, ref.Reason, clipText(text))}
	}
	var digest []byte
	var encErr error
	if pv := evid.Guard("no-panic:encode", func() {
		d, err := eip712.EncodeTypedDataV4(r.ctx, td)
		digest, encErr = d, err
	}); pv != nil {
		pv.Detail = fmt.Sprintf("step %d (%s): %s", step, desc, pv.Detail)
		return []evid.Violation{*pv}
	}
	accepted := encErr == nil
	if accepted && len(digest) != 32 {
		vs = append(vs, evid.V("digest-or-error", "step %d (%s): no error and a %d-byte digest", step, desc, len(digest)))
	}
	r.keep(step, "EncodeTypedDataV4 digest", digest)
	switch {
	case ref.Status == eip712ref.OK && !accepted:
		vs = append(vs, evid.V("well-formed-accepted", "step %d (%s): the variable holds well-formed typed data (reference digest %x) but EncodeTypedDataV4 fails: %v\ncontent: %s", step, desc, ref.Result.Digest, encErr, clipText(text)))
	case ref.Status == eip712ref.OK && !bytes.Equal(digest, ref.Result.Digest):
		vs = append(vs, evid.V("digest", "step %d (%s): EncodeTypedDataV4 = %x, EIP-712 reference for the content of the variable = %x\ncontent: %s", step, desc, digest, ref.Result.Digest, clipText(text)))
	case ref.Status == eip712ref.Invalid && ref.MustReject && accepted:
		vs = append(vs, evid.V("mismatch-rejected", "step %d (%s): digest %x returned although a value does not fit its declared type (%s)\ncontent: %s", step, desc, digest, ref.Reason, clipText(text)))
	}
	// the same content in a new variable: verdicts do not depend on the history
	var td2 eip712.TypedData
	var d2 []byte
	var err2 error
	if err := json.Unmarshal([]byte(text), &td2); err != nil {
		return append(vs, evid.V("harness", "step %d (%s): rendering of the variable does not decode: %v\n%s", step, desc, err, clipText(text)))
	}
	if pv := evid.Guard("no-panic:encode", func() {
		d, err := eip712.EncodeTypedDataV4(r.ctx, &td2)
		d2, err2 = d, err
	}); pv != nil {
		return append(vs, *pv)
	}
	if (err2 == nil) != accepted || !bytes.Equal(d2, digest) {
		vs = append(vs, evid.V("history-independent", "step %d (%s): EncodeTypedDataV4 gives %x / %v, but for a new TypedData with the same content %x / %v\ncontent: %s", step, desc, digest, encErr, d2, err2, clipText(text)))
	}
	if len(vs) > 0 {
		return vs
	}
	switch via {
	case "sign":
		if r.o.Signer == nil {
			break
		}
		var res *ethsigner.EIP712Result
		var signErr error
		if pv := evid.Guard("no-panic:sign", func() { res, signErr = ethsigner.SignTypedDataV4(r.ctx, r.o.Signer, td) }); pv != nil {
			return append(vs, *pv)
		}
		switch {
		case (signErr == nil) != accepted:
			vs = append(vs, evid.V("sign-consistent", "step %d (%s): EncodeTypedDataV4 error %v but SignTypedDataV4 error %v", step, desc, encErr, signErr))
		case signErr == nil && res == nil:
			vs = append(vs, evid.V("digest-or-error", "step %d (%s): SignTypedDataV4 returned neither a result nor an error", step, desc))
		case signErr == nil:
			if !bytes.Equal(res.Hash, digest) || len(res.SignatureRSV) != 65 {
				vs = append(vs, evid.V("sign-consistent", "step %d (%s): SignTypedDataV4 hash %x (signature %d bytes), EncodeTypedDataV4 %x", step, desc, []byte(res.Hash), len(res.SignatureRSV), digest))
			} else if r.o.CheckSignature != nil && r.fullSig && ref.Status == eip712ref.OK {
				vs = append(vs, r.o.CheckSignature(res, ref.Result.Digest)...)
			}
			r.keep(step, "SignTypedDataV4 Hash", res.Hash)
			r.keep(step, "SignTypedDataV4 SignatureRSV", res.SignatureRSV)
			r.keep(step, "SignTypedDataV4 R", res.R)
			r.keep(step, "SignTypedDataV4 S", res.S)
		}
	case "hashstruct":
		if ref.Status != eip712ref.OK || !r.o.HashStruct {
			break
		}
		// (a document without an EIP712Domain type / a domain object is hashed with the empty type / object)
		if pv := evid.Guard("no-panic:hashstruct", func() {
			types, domain := DomainDefaults(td)
			dm, err := eip712.HashStruct(r.ctx, eip712.EIP712Domain, domain, types)
			if err != nil || !bytes.Equal(dm, ref.Result.DomainSeparator) {
				vs = append(vs, evid.V("domain-separator", "step %d (%s): HashStruct(EIP712Domain) = %x / %v, reference = %x", step, desc, []byte(dm), err, ref.Result.DomainSeparator))
			}
			r.keep(step, "HashStruct(EIP712Domain)", dm)
			if td.PrimaryType != eip712.EIP712Domain {
				mh, err := eip712.HashStruct(r.ctx, td.PrimaryType, td.Message, td.Types)
				if err != nil || !bytes.Equal(mh, ref.Result.MessageHash) {
					vs = append(vs, evid.V("hashstruct", "step %d (%s): HashStruct(message) = %x / %v, reference = %x", step, desc, []byte(mh), err, ref.Result.MessageHash))
				}
				r.keep(step, "HashStruct(message)", mh)
			}
		}); pv != nil {
			return append(vs, *pv)
		}
	}
	// the payload belongs to the caller: apart from the documented defaults (see Normalised)
	// hashing leaves it as it was
	if r.o.PayloadUnchanged {
		after, err := Snapshot(td)
		if err != nil {
			return append(vs, evid.V("payload-unchanged", "step %d (%s): the variable cannot be rendered after the call: %v", step, desc, err))
		}
		if a, b := Canon(Normalised(after)), Canon(Normalised(before)); a != b {
			vs = append(vs, evid.V("payload-unchanged", "step %d (%s): hashing changed the caller's TypedData (beyond filling in the empty EIP712Domain type / domain object)\nbefore: %s\nafter:  %s", step, desc, clipText(b), clipText(a)))
		}
	}
	return vs
}

func clipText(s string) string {
	if len(s) > 1500 {
		return s[:1500] + "…"
	}
	return s
}

// RunSession executes the history and returns every broken clause.
func RunSession(s Session, o Options) (vs []evid.Violation) {
	r := &sessionRun{o: o, ctx: context.Background()}
	vars := map[int]*eip712.TypedData{}
	var order []int
	firstDoc := -1
	for i, st := range s.Steps {
		td := vars[st.Var]
		if st.Var < 0 || td == nil {
			td = new(eip712.TypedData)
			if st.Var >= 0 {
				vars[st.Var] = td
				order = append(order, st.Var)
			}
		}
		desc := fmt.Sprintf("%s var %d", st.Op, st.Var)
		switch st.Op {
		case "decode", "reset-decode":
			if st.Op == "reset-decode" {
				td.Types, td.PrimaryType, td.Domain, td.Message = nil, "", nil, nil
			}
			// the text is the caller's memory: a slice of a larger buffer, followed by spare
			// capacity; it is not written to, and after the call the caller may overwrite it
			buf := make([]byte, len(st.Doc)+48)
			n := copy(buf, st.Doc)
			for k := n; k < len(buf); k++ {
				buf[k] = 0xEE
			}
			var uerr error
			if pv := evid.Guard("no-panic:unmarshal", func() { uerr = json.Unmarshal(buf[:n:len(buf)], td) }); pv != nil {
				return append(vs, *pv)
			}
			if uerr != nil && st.WellFormed {
				return append(vs, evid.V("well-formed-accepted", "step %d (%s): json.Unmarshal into TypedData failed: %v", i, desc, uerr))
			}
			if string(buf[:n]) != st.Doc || bytes.Count(buf[n:], []byte{0xEE}) != len(buf)-n {
				return append(vs, evid.V("input-unchanged", "step %d (%s): decoding wrote into the caller's text buffer (or the capacity behind it)", i, desc))
			}
			if held, err := Snapshot(td); err == nil {
				for k := range buf {
					buf[k] = 'Z'
				}
				now, err := Snapshot(td)
				if err != nil {
					return append(vs, evid.V("input-not-retained", "step %d (%s): the decoded TypedData cannot be rendered any more after the caller overwrote the text it was decoded from: %v", i, desc, err))
				}
				if a, b := Canon(now), Canon(held); a != b {
					return append(vs, evid.V("input-not-retained", "step %d (%s): the decoded TypedData changed when the caller overwrote the text it was decoded from\nbefore: %s\nafter:  %s", i, desc, clipText(b), clipText(a)))
				}
			}
			if firstDoc < 0 {
				firstDoc = i
			}
		case "set", "del":
			var v interface{}
			if st.Op == "set" {
				var err error
				if v, err = decodeValue(st.Value); err != nil {
					return append(vs, evid.V("harness", "step %d: value %q: %v", i, st.Value, err))
				}
			}
			if !setPath(td, st.Path, v, st.Op == "del") {
				desc += " (nothing at that path)"
			}
			desc += fmt.Sprintf(" %v", st.Path)
		case "set-member":
			if len(st.Path) == 3 {
				if t, ok := td.Types[st.Path[0]]; ok {
					if mi, err := strconv.Atoi(st.Path[1]); err == nil && mi >= 0 && mi < len(t) && t[mi] != nil {
						if st.Path[2] == "name" {
							t[mi].Name = st.Value
						} else {
							t[mi].Type = st.Value
						}
					}
				}
			}
			desc += fmt.Sprintf(" %v", st.Path)
		case "set-typedef":
			if len(st.Path) == 1 {
				var t eip712.Type
				if err := json.Unmarshal([]byte(st.Value), &t); err != nil {
					return append(vs, evid.V("harness", "step %d: type definition %q: %v", i, st.Value, err))
				}
				if td.Types == nil {
					td.Types = eip712.TypeSet{}
				}
				td.Types[st.Path[0]] = t
			}
			desc += fmt.Sprintf(" %v", st.Path)
		case "set-primary":
			td.PrimaryType = st.Value
		case "hash":
		default:
			return append(vs, evid.V("harness", "step %d: unknown op %q", i, st.Op))
		}
		vs = append(vs, r.judgeVar(i, desc, td, st.Via, st.WellFormed)...)
		if len(vs) > 0 {
			return vs
		}
	}
	// results handed out earlier are still what they were
	for _, k := range r.kept {
		if !bytes.Equal(k.live, k.snap) {
			return append(vs, evid.V("result-stable", "the %s returned in step %d was %x and has become %x after later calls", k.what, k.step, k.snap, k.live))
		}
	}
	// the caller overwrites them; that is not the library's memory
	for _, k := range r.kept {
		for i := range k.live {
			k.live[i] = 0xA5
		}
	}
	sort.Ints(order)
	for _, v := range order {
		vs = append(vs, r.judgeVar(len(s.Steps), fmt.Sprintf("var %d hashed once more at the end, after earlier results were overwritten by the caller", v), vars[v], "hashstruct", false)...)
		if len(vs) > 0 {
			return vs
		}
	}
	if firstDoc >= 0 {
		td := new(eip712.TypedData)
		st := s.Steps[firstDoc]
		var uerr error
		if pv := evid.Guard("no-panic:unmarshal", func() { uerr = json.Unmarshal([]byte(st.Doc), td) }); pv != nil {
			return append(vs, *pv)
		}
		_ = uerr
		r.fullSig = true
		vs = append(vs, r.judgeVar(len(s.Steps), fmt.Sprintf("the document of step %d decoded again at the end", firstDoc), td, "sign", false)...)
	}
	return vs
}
