package tdgen

// Related documents: a document kept in parts, and derivations that change one part and
// keep the others, so that a sequence of them agrees on everything a cache could be keyed
// on (the domain VALUES, the type NAMES, the type definitions, the message, the primary
// type) while the digest differs.

import (
	"fmt"
	"math/big"
	"strings"

	"pgregory.net/rapid"

	"verifharness/ref/eip712ref"
)

// Parts is a well-formed typed-data document in parts.
type Parts struct {
	Names         []string // struct types in definition order (without EIP712Domain)
	Members       map[string][]eip712ref.Member
	DomainDefined bool
	Domain        []eip712ref.Member // declared members of EIP712Domain
	Primary       string
	// DomainVal always carries a value for each of the five standard field names, whether
	// declared or not (the undeclared ones are extra fields of the domain object).
	DomainVal *J
	Message   *J // nil when Primary is EIP712Domain
	MaxBudget int
}

func (p *Parts) Clone() *Parts {
	c := *p
	c.Names = append([]string(nil), p.Names...)
	c.Members = map[string][]eip712ref.Member{}
	for k, v := range p.Members {
		c.Members[k] = append([]eip712ref.Member(nil), v...)
	}
	c.Domain = append([]eip712ref.Member(nil), p.Domain...)
	c.DomainVal = p.DomainVal.Clone()
	c.Message = p.Message.Clone()
	return &c
}

// Types returns the type set of the document (with EIP712Domain when defined).
func (p *Parts) Types() eip712ref.Types {
	t := eip712ref.Types{}
	for _, n := range p.Names {
		t[n] = p.Members[n]
	}
	if p.DomainDefined {
		t[eip712ref.DomainType] = p.Domain
	}
	return t
}

// Root assembles the JSON tree.
func (p *Parts) Root() *J {
	tn := eip712ref.JObj()
	if p.DomainDefined {
		tn.Set(eip712ref.DomainType, membersNode(p.Domain))
	}
	for _, n := range p.Names {
		tn.Set(n, membersNode(p.Members[n]))
	}
	root := eip712ref.JObj()
	root.Set("types", tn)
	root.Set("primaryType", eip712ref.JStr(p.Primary))
	root.Set("domain", p.DomainVal.Clone())
	if p.Message != nil {
		root.Set("message", p.Message.Clone())
	}
	return root
}

// Text renders the document with a drawn key order.
func (p *Parts) Text(rt *rapid.T, label string) string {
	root := p.Root()
	if rapid.Bool().Draw(rt, label+".shuffle") {
		root = Shuffled(root, rapid.Uint64().Draw(rt, label+".seed"))
	}
	return root.Text()
}

func (p *Parts) ctx(rt *rapid.T) *Ctx {
	return &Ctx{RT: rt, Types: p.Types(), Stats: NewStats(), SafeNumbersOnly: true}
}

// GenParts draws a document.
func GenParts(rt *rapid.T, maxStructs int) *Parts {
	g := GenGraph(rt, maxStructs, false)
	p := &Parts{Names: g.Names, Members: g.Members, MaxBudget: 3}
	p.Domain, p.DomainDefined = GenDomainType(rt, NewStats())
	p.Primary = g.Names[0]
	p.genDomainValues(rt, "domain")
	p.genMessage(rt, "msg")
	return p
}

// declaredDomainType is the declared type of a standard domain field, or its standard type.
func (p *Parts) domainFieldType(f eip712ref.Member) string {
	for _, m := range p.Domain {
		if m.Name == f.Name {
			return m.Type
		}
	}
	return f.Type
}

// genDomainValues draws a value for each of the five standard fields: of the declared type
// where the field is declared, of the standard type otherwise.
func (p *Parts) genDomainValues(rt *rapid.T, label string) {
	var all []eip712ref.Member
	for _, f := range DomainFields {
		all = append(all, eip712ref.Member{Name: f.Name, Type: p.domainFieldType(f)})
	}
	types := p.Types()
	types[eip712ref.DomainType] = all
	c := &Ctx{RT: rt, Types: types, Stats: NewStats(), SafeNumbersOnly: true}
	p.DomainVal = c.Struct(label, eip712ref.DomainType, 1)
}

func (p *Parts) genMessage(rt *rapid.T, label string) {
	if p.Primary == eip712ref.DomainType {
		p.Message = nil
		return
	}
	p.Message = p.ctx(rt).Struct(label, p.Primary, rapid.IntRange(1, p.MaxBudget).Draw(rt, label+".budget"))
}

func evenHex(n *J) bool {
	return n != nil && n.Kind == 's' && strings.HasPrefix(n.Str, "0x") && len(n.Str)%2 == 0 && isHex(n.Str[2:])
}

func isHex(s string) bool {
	for _, c := range s {
		if !(c >= '0' && c <= '9' || c >= 'a' && c <= 'f' || c >= 'A' && c <= 'F') {
			return false
		}
	}
	return true
}

// typesFitting lists atomic types of which the JSON value n is a well-formed value.
func typesFitting(n *J) []string {
	var out []string
	if n == nil {
		return nil
	}
	if n.Kind == 's' {
		out = append(out, "string")
	}
	if n.Kind == 'b' {
		out = append(out, "bool")
	}
	if evenHex(n) {
		out = append(out, "bytes")
		if k := (len(n.Str) - 2) / 2; k >= 1 && k <= 32 {
			out = append(out, fmt.Sprintf("bytes%d", k))
			if k == 20 {
				out = append(out, "address")
			}
		}
	}
	if v, ok := eip712ref.IntegerOf(n); ok && (n.Kind == 's' || new(big.Int).Abs(v).Cmp(pow53) < 0) {
		for _, bits := range []int{8, 16, 32, 64, 128, 160, 200, 256} {
			if eip712ref.InRange(v, false, bits) {
				out = append(out, fmt.Sprintf("uint%d", bits))
			}
			if eip712ref.InRange(v, true, bits) {
				out = append(out, fmt.Sprintf("int%d", bits))
			}
		}
	}
	return out
}

// WithDomainType returns the document with another EIP712Domain type over the SAME domain
// object: another subset of the five fields (or no domain type at all), another member
// order, and now and then another type for a field that its value is also a value of.
func (p *Parts) WithDomainType(rt *rapid.T, label string) *Parts {
	c := p.Clone()
	mode := rapid.IntRange(0, 9).Draw(rt, label+".mode")
	if mode == 0 {
		c.DomainDefined, c.Domain = false, nil
		return c
	}
	mask := rapid.IntRange(0, 31).Draw(rt, label+".mask")
	if mode == 1 {
		// the same fields in another order (when there are two or more)
		mask = 0
		for i, f := range DomainFields {
			for _, m := range p.Domain {
				if m.Name == f.Name {
					mask |= 1 << i
				}
			}
		}
	}
	c.DomainDefined, c.Domain = true, nil
	for i, f := range DomainFields {
		if mask&(1<<i) == 0 {
			continue
		}
		t := p.domainFieldType(f)
		if fit := typesFitting(p.DomainVal.Get(f.Name)); len(fit) > 0 && rapid.IntRange(0, 3).Draw(rt, fmt.Sprintf("%s.alt%d", label, i)) == 0 {
			t = rapid.SampledFrom(fit).Draw(rt, fmt.Sprintf("%s.type%d", label, i))
		}
		c.Domain = append(c.Domain, eip712ref.Member{Name: f.Name, Type: t})
	}
	if len(c.Domain) > 1 && (mode == 1 || rapid.IntRange(0, 2).Draw(rt, label+".reorder") == 0) {
		c.Domain = shuffleMembers(c.Domain, rapid.Uint64().Draw(rt, label+".order"))
	}
	return c
}

// WithDomainValues: the same types, other domain values.
func (p *Parts) WithDomainValues(rt *rapid.T, label string) *Parts {
	c := p.Clone()
	c.genDomainValues(rt, label)
	return c
}

// WithMessage: the same types and domain, another message.
func (p *Parts) WithMessage(rt *rapid.T, label string) *Parts {
	c := p.Clone()
	c.genMessage(rt, label)
	return c
}

// WithMembers: the same struct NAMES, other member lists (and hence another message).
func (p *Parts) WithMembers(rt *rapid.T, label string) *Parts {
	c := p.Clone()
	which := rapid.IntRange(-1, len(c.Names)-1).Draw(rt, label+".which") // -1: every struct
	for i, n := range c.Names {
		if which < 0 || which == i {
			c.Members[n] = genMembers(rt, fmt.Sprintf("%s.s%d", label, i), c.Names, i, false)
		}
	}
	c.genMessage(rt, label+".msg")
	return c
}

// WithMemberTypes: the same message and the same member NAMES, but the primary struct
// declares them in another order and/or with other types that their values are also values
// of (only atomic members directly inside the message are retyped).
func (p *Parts) WithMemberTypes(rt *rapid.T, label string) *Parts {
	c := p.Clone()
	if c.Message == nil {
		return c.WithDomainType(rt, label+".dt")
	}
	ms := append([]eip712ref.Member(nil), c.Members[c.Primary]...)
	// (retyping looks at the one value in the message: only when the primary struct has no other instances)
	onlyAtTop := true
	for _, n := range c.Names {
		for _, m := range c.Members[n] {
			if base, _, _ := eip712ref.SplitType(m.Type); base == c.Primary {
				onlyAtTop = false
			}
		}
	}
	for i, m := range ms {
		if k, _ := eip712ref.Atomic(m.Type); k == eip712ref.NotAtomic || !onlyAtTop {
			continue
		}
		if fit := typesFitting(c.Message.Get(m.Name)); len(fit) > 0 && rapid.Bool().Draw(rt, fmt.Sprintf("%s.alt%d", label, i)) {
			ms[i].Type = rapid.SampledFrom(fit).Draw(rt, fmt.Sprintf("%s.type%d", label, i))
		}
	}
	if len(ms) > 1 && rapid.Bool().Draw(rt, label+".reorder") {
		ms = shuffleMembers(ms, rapid.Uint64().Draw(rt, label+".order"))
	}
	c.Members[c.Primary] = ms
	return c
}

// WithPrimary: the same types, another primary type (possibly EIP712Domain).
func (p *Parts) WithPrimary(rt *rapid.T, label string) *Parts {
	c := p.Clone()
	i := rapid.IntRange(-1, len(c.Names)-1).Draw(rt, label+".primary")
	if i < 0 {
		c.Primary = eip712ref.DomainType
	} else {
		c.Primary = c.Names[i]
	}
	c.genMessage(rt, label+".msg")
	return c
}

// RetypeInPlace picks a declared atomic member — of EIP712Domain, or of the primary struct
// when that has no other instances — and another type its value is also a value of.  It
// changes the parts and returns the (type name, member index, new type) for a "set-member" step.
func (p *Parts) RetypeInPlace(rt *rapid.T, label string) (typeName string, index int, newType string, ok bool) {
	type cand struct {
		tn  string
		i   int
		fit []string
	}
	var cands []cand
	if p.DomainDefined {
		for i, m := range p.Domain {
			if fit := typesFitting(p.DomainVal.Get(m.Name)); len(fit) > 1 {
				cands = append(cands, cand{eip712ref.DomainType, i, fit})
			}
		}
	}
	onlyAtTop := p.Message != nil
	for _, n := range p.Names {
		for _, m := range p.Members[n] {
			if base, _, _ := eip712ref.SplitType(m.Type); base == p.Primary {
				onlyAtTop = false
			}
		}
	}
	if onlyAtTop {
		for i, m := range p.Members[p.Primary] {
			if k, _ := eip712ref.Atomic(m.Type); k == eip712ref.NotAtomic {
				continue
			}
			if fit := typesFitting(p.Message.Get(m.Name)); len(fit) > 1 {
				cands = append(cands, cand{p.Primary, i, fit})
			}
		}
	}
	if len(cands) == 0 {
		return "", 0, "", false
	}
	c := cands[rapid.IntRange(0, len(cands)-1).Draw(rt, label+".member")]
	cur := ""
	if c.tn == eip712ref.DomainType {
		cur = p.Domain[c.i].Type
	} else {
		cur = p.Members[c.tn][c.i].Type
	}
	var others []string
	for _, t := range c.fit {
		if t != cur {
			others = append(others, t)
		}
	}
	newType = rapid.SampledFrom(others).Draw(rt, label+".type")
	if c.tn == eip712ref.DomainType {
		p.Domain[c.i].Type = newType
	} else {
		ms := append([]eip712ref.Member(nil), p.Members[c.tn]...)
		ms[c.i].Type = newType
		p.Members[c.tn] = ms
	}
	return c.tn, c.i, newType, true
}

// AtomicPaths lists the paths (for Step.Path) of the atomic values directly inside the
// message and the declared domain fields, with their types.
func (p *Parts) AtomicPaths() (paths [][]string, types []string) {
	if p.Message != nil {
		for _, m := range p.Members[p.Primary] {
			if k, _ := eip712ref.Atomic(m.Type); k != eip712ref.NotAtomic && p.Message.Get(m.Name) != nil {
				paths = append(paths, []string{"message", m.Name})
				types = append(types, m.Type)
			}
		}
	}
	if p.DomainDefined {
		for _, m := range p.Domain {
			if k, _ := eip712ref.Atomic(m.Type); k != eip712ref.NotAtomic {
				paths = append(paths, []string{"domain", m.Name})
				types = append(types, m.Type)
			}
		}
	}
	return paths, types
}

// NewAtomic draws a value of the atomic type t.
func (p *Parts) NewAtomic(rt *rapid.T, label string, t string) *J {
	k, size := eip712ref.Atomic(t)
	return p.ctx(rt).Atomic(label, k, size, t)
}

// SetIn replaces the value at path (as returned by AtomicPaths) in the parts themselves.
func (p *Parts) SetIn(path []string, v *J) {
	switch path[0] {
	case "message":
		p.Message.Set(path[1], v)
	case "domain":
		p.DomainVal.Set(path[1], v)
	}
}
