package tdgen

import (
	"encoding/json"
	"testing"

	"verifharness/evid"
)

// HeavyPool is evid.Pool (kind "<name>": the per-case judge run from several goroutines
// at once on a batch of the heaviest cases seen) whose kind DECLARES every batch before
// judging it: a fatal runtime error in the code under test ("concurrent map writes", a
// crash on a goroutine of the batch) ends the process, and the driver then attributes
// the death to the batch instead of reporting infrastructure trouble.
type HeavyPool[C any] struct {
	k      *evid.Kind[evid.Batch[C]]
	cases  []C
	sizes  []int
	max    int
	offers int
}

// NewHeavyPool registers the kind.  Call it in TestReplay as well (max 0).
func NewHeavyPool[C any](r *evid.Recorder, name string, judge func(C) []evid.Violation, max int) *HeavyPool[C] {
	return &HeavyPool[C]{k: evid.NewKind(r, name, evid.ParallelJudge(judge)).DeclareEach(), max: max}
}

// Offer keeps the case if it is among the heaviest (by size of its JSON form) of the
// first few thousand offered.
func (p *HeavyPool[C]) Offer(c C) {
	if p.max == 0 || p.offers > 4000 {
		return
	}
	p.offers++
	b, err := json.Marshal(c)
	if err != nil {
		return
	}
	if len(p.cases) < p.max {
		p.cases = append(p.cases, c)
		p.sizes = append(p.sizes, len(b))
		return
	}
	mi := 0
	for i, s := range p.sizes {
		if s < p.sizes[mi] {
			mi = i
		}
	}
	if len(b) > p.sizes[mi] {
		p.cases[mi], p.sizes[mi] = c, len(b)
	}
}

// Run judges the kept cases in batches of `batch` from `workers` goroutines, `rounds` times each.
func (p *HeavyPool[C]) Run(t *testing.T, name string, workers, rounds, batch int) {
	t.Run(name, func(t *testing.T) {
		for lo := 0; lo < len(p.cases); lo += batch {
			hi := lo + batch
			if hi > len(p.cases) {
				hi = len(p.cases)
			}
			if hi-lo < 2 {
				break
			}
			p.k.Must(t, evid.Batch[C]{Cases: p.cases[lo:hi], Workers: workers, Rounds: rounds}, true, "concurrent-batch", "concurrent-batch:"+name)
		}
	})
}
