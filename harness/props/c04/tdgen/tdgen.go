// Package tdgen holds the rapid generators for EIP-712 typed-data documents that
// the C04 and C14 checks share: struct type graphs (shared, mutually recursive
// and self-recursive references, arrays nested to depth 3), messages of those
// types (recursion made finite by absent references), domain subsets, and the
// JSON rendering with generated key orders.  Every random choice is drawn from
// rapid (key shuffles are a deterministic function of a drawn seed).
package tdgen

import (
	"encoding/hex"
	"fmt"
	"math/big"
	"strings"

	"pgregory.net/rapid"

	"verifharness/gen"
	"verifharness/ref/eip712ref"
)

type J = eip712ref.JNode

// Graph is a set of struct types in definition order.
type Graph struct {
	Names   []string
	Members map[string][]eip712ref.Member
}

func (g *Graph) Types() eip712ref.Types {
	t := eip712ref.Types{}
	for _, n := range g.Names {
		t[n] = g.Members[n]
	}
	return t
}

// Stats describes what a generated document contains (class labels / NT rule).
type Stats struct {
	Structs          int
	Reachable        int // struct types in the closure of the primary type (incl. it)
	Recursive        bool
	SelfRecursive    bool
	ArrayOfStructs   bool
	MaxArrayDepth    int
	FixedArray       bool
	EmptyArray       bool
	AbsentNull       int
	AbsentOmitted    int
	NullInArray      int
	StructValues     int
	DomainMask       int // bit i = standard field i present; -1 = no EIP712Domain type
	DomainShuffled   bool
	PrimaryIsDomain  bool
	EmptyStruct      bool
	Atoms            map[string]bool
	AtomTypes        map[string]bool // atomic type names that received a value in the message
	IntForms         map[string]bool
	ValueNodes       int
	SharedStruct     bool // some struct referenced from two places
	UnreferencedType bool
}

func NewStats() *Stats {
	return &Stats{Atoms: map[string]bool{}, IntForms: map[string]bool{}, AtomTypes: map[string]bool{}}
}

// identifier alphabet: no 'q' (reserved for the names of extra fields / extra types)
const idFirst = "ABCXYZabcxyz_"
const idRest = "ABCXYZabcxyz_0189"

// Ident draws an identifier that is not in taken, does not look like an
// elementary type and is not EIP712Domain.  Short names from a small alphabet
// make prefixes, case differences and '_' / digit orderings frequent.
func Ident(rt *rapid.T, label string, taken map[string]bool) string {
	for try := 0; ; try++ {
		n := rapid.IntRange(1, 4).Draw(rt, fmt.Sprintf("%s.len%d", label, try))
		b := make([]byte, n)
		b[0] = idFirst[rapid.IntRange(0, len(idFirst)-1).Draw(rt, fmt.Sprintf("%s.c0_%d", label, try))]
		for i := 1; i < n; i++ {
			b[i] = idRest[rapid.IntRange(0, len(idRest)-1).Draw(rt, fmt.Sprintf("%s.c%d_%d", label, i, try))]
		}
		s := string(b)
		if try > 6 {
			s = fmt.Sprintf("%s%d", s, try)
		}
		if taken[s] || eip712ref.LooksAtomic(s) || s == eip712ref.DomainType {
			continue
		}
		taken[s] = true
		return s
	}
}

// AtomicType draws one of the 99 atomic type names, kind first.
func AtomicType(rt *rapid.T, label string) string {
	width := func() int {
		// every width, with extra weight on 256 and 8
		switch rapid.IntRange(0, 9).Draw(rt, label+".wmode") {
		case 0, 1:
			return 256
		case 2:
			return 8
		}
		return 8 * rapid.IntRange(1, 32).Draw(rt, label+".w")
	}
	switch rapid.IntRange(0, 9).Draw(rt, label+".kind") {
	case 0, 1:
		return fmt.Sprintf("uint%d", width())
	case 2, 3:
		return fmt.Sprintf("int%d", width())
	case 4:
		return "bool"
	case 5:
		return "address"
	case 6, 7:
		return fmt.Sprintf("bytes%d", rapid.IntRange(1, 32).Draw(rt, label+".w"))
	case 8:
		return "bytes"
	default:
		return "string"
	}
}

func dimsSuffix(rt *rapid.T, label string) string {
	var depth int
	switch d := rapid.IntRange(0, 19).Draw(rt, label+".depth"); {
	case d < 10:
		depth = 0
	case d < 15:
		depth = 1
	case d < 18:
		depth = 2
	default:
		depth = 3
	}
	var sb strings.Builder
	for i := 0; i < depth; i++ {
		if rapid.IntRange(0, 2).Draw(rt, fmt.Sprintf("%s.fixed%d", label, i)) == 0 {
			fmt.Fprintf(&sb, "[%d]", rapid.IntRange(1, 3).Draw(rt, fmt.Sprintf("%s.dim%d", label, i)))
		} else {
			sb.WriteString("[]")
		}
	}
	return sb.String()
}

// GenGraph draws 1..maxStructs struct types.  With dag set, struct i only
// references structs with a larger index (what a Solidity ABI can express).
func GenGraph(rt *rapid.T, maxStructs int, dag bool) *Graph {
	n := rapid.IntRange(1, maxStructs).Draw(rt, "nStructs")
	g := &Graph{Members: map[string][]eip712ref.Member{}}
	taken := map[string]bool{}
	for i := 0; i < n; i++ {
		g.Names = append(g.Names, Ident(rt, fmt.Sprintf("s%d", i), taken))
	}
	for i, name := range g.Names {
		g.Members[name] = genMembers(rt, fmt.Sprintf("s%d", i), g.Names, i, dag)
	}
	return g
}

func genMembers(rt *rapid.T, label string, names []string, self int, dag bool) []eip712ref.Member {
	nm := rapid.IntRange(0, 6).Draw(rt, label+".nMembers")
	if nm == 0 && rapid.IntRange(0, 3).Draw(rt, label+".reallyEmpty") != 0 {
		nm = 2
	}
	mtaken := map[string]bool{}
	var ms []eip712ref.Member
	for j := 0; j < nm; j++ {
		ml := fmt.Sprintf("%s.m%d", label, j)
		mname := Ident(rt, ml, mtaken)
		var base string
		lo := 0
		if dag {
			lo = self + 1
		}
		// (small ranges: rapid's integer generators are biased towards the low end of wide ranges)
		if lo < len(names) && rapid.IntRange(0, 4).Draw(rt, ml+".isRef") < 2 {
			// half of the references go to the next struct in definition order, which
			// makes long chains (and, without dag, cycles through the whole graph) reachable
			if next := self + 1; self >= 0 && rapid.Bool().Draw(rt, ml+".next") && (next < len(names) || !dag) {
				base = names[next%len(names)]
			} else {
				base = names[rapid.IntRange(lo, len(names)-1).Draw(rt, ml+".ref")]
			}
		} else {
			base = AtomicType(rt, ml)
		}
		ms = append(ms, eip712ref.Member{Name: mname, Type: base + dimsSuffix(rt, ml)})
	}
	return ms
}

// ---- values

// Ctx carries the generation state of one document.
type Ctx struct {
	RT    *rapid.T
	Types eip712ref.Types
	Stats *Stats
	// SafeNumbersOnly keeps the JSON-number spelling to |v| < 2^53 (what a JSON
	// producer can emit exactly); larger integers are written as strings.
	SafeNumbersOnly bool
	nodes           int
}

const nodeBudget = 260

var pow53 = new(big.Int).Lsh(big.NewInt(1), 53)

// IntNode renders an integer in a drawn spelling: JSON number, decimal string, 0x-hex string.
func (c *Ctx) IntNode(label string, v *big.Int) *J {
	form := rapid.IntRange(0, 2).Draw(c.RT, label+".form")
	abs := new(big.Int).Abs(v)
	if form == 0 && c.SafeNumbersOnly && abs.Cmp(pow53) >= 0 {
		form = 1
	}
	if form == 2 && v.Sign() < 0 {
		form = 1
	}
	switch form {
	case 0:
		c.Stats.IntForms["number"] = true
		return eip712ref.JNum(v.String())
	case 1:
		c.Stats.IntForms["decimal-string"] = true
		return eip712ref.JStr(v.String())
	default:
		c.Stats.IntForms["hex-string"] = true
		h := v.Text(16)
		switch rapid.IntRange(0, 3).Draw(c.RT, label+".hexstyle") {
		case 0:
			h = strings.ToUpper(h)
		case 1:
			if len(h)%2 == 1 {
				h = "0" + h
			}
		}
		return eip712ref.JStr("0x" + h)
	}
}

// SignedInt draws a value of int<bits> with weight on the range boundaries.
func SignedInt(rt *rapid.T, label string, bits int) *big.Int {
	lim := new(big.Int).Lsh(big.NewInt(1), uint(bits-1))
	switch rapid.IntRange(0, 9).Draw(rt, label+".smode") {
	case 0:
		return new(big.Int).Neg(lim)
	case 1:
		return new(big.Int).Sub(lim, big.NewInt(1))
	case 2:
		return big.NewInt(-1)
	}
	m := gen.Uint(rt, label+".mag", uint(bits-1))
	if rapid.Bool().Draw(rt, label+".neg") {
		m = new(big.Int).Neg(m)
	}
	return m
}

func hexStyled(rt *rapid.T, label string, b []byte) string {
	h := hex.EncodeToString(b)
	switch rapid.IntRange(0, 3).Draw(rt, label+".case") {
	case 0:
		h = strings.ToUpper(h)
	case 1:
		// mixed: upper-case every other letter
		bb := []byte(h)
		for i := range bb {
			if i%2 == 0 && bb[i] >= 'a' && bb[i] <= 'f' {
				bb[i] -= 32
			}
		}
		h = string(bb)
	}
	return "0x" + h
}

var stringAlphabet = []rune{'a', 'b', 'Z', ' ', '"', '\\', '/', '\n', '\t', 0, 0x1f, 0x7f, 'é', 'ß', '€', '漢', '😀', 0xFFFD, '<', '&', 0x2028}

func genString(rt *rapid.T, label string) string {
	switch rapid.IntRange(0, 5).Draw(rt, label+".smode") {
	case 0:
		return ""
	case 1, 2:
		return rapid.StringOfN(rapid.SampledFrom(stringAlphabet), 0, 24, -1).Draw(rt, label+".s")
	case 3:
		return rapid.StringN(0, 40, -1).Draw(rt, label+".u")
	case 4:
		n := gen.Len(rt, label+".len", 300)
		return strings.Repeat("x", n)
	default:
		return rapid.SampledFrom([]string{"Hello, Bob!", "0x1234", "null", "12345", "true", "Ether Mail", "{}"}).Draw(rt, label+".lit")
	}
}

// Atomic draws a value of an atomic type as a JSON node.
func (c *Ctx) Atomic(label string, kind eip712ref.AtomicKind, size int, typeName string) *J {
	rt := c.RT
	c.nodes++
	c.Stats.ValueNodes++
	c.Stats.AtomTypes[typeName] = true
	switch kind {
	case eip712ref.KUint:
		c.Stats.Atoms["uint"] = true
		return c.IntNode(label, gen.Uint(rt, label, uint(size)))
	case eip712ref.KInt:
		c.Stats.Atoms["int"] = true
		v := SignedInt(rt, label, size)
		if v.Sign() < 0 {
			c.Stats.Atoms["int-negative"] = true
		}
		return c.IntNode(label, v)
	case eip712ref.KBool:
		c.Stats.Atoms["bool"] = true
		return eip712ref.JBool(rapid.Bool().Draw(rt, label))
	case eip712ref.KAddress:
		c.Stats.Atoms["address"] = true
		return eip712ref.JStr(hexStyled(rt, label, gen.Bytes(rt, label, 20)))
	case eip712ref.KBytesN:
		c.Stats.Atoms["bytesN"] = true
		if size < 32 {
			c.Stats.Atoms["bytesN<32"] = true
		}
		return eip712ref.JStr(hexStyled(rt, label, gen.Bytes(rt, label, size)))
	case eip712ref.KBytes:
		c.Stats.Atoms["bytes"] = true
		n := gen.Len(rt, label+".len", 140)
		return eip712ref.JStr(hexStyled(rt, label, gen.Bytes(rt, label, n)))
	default:
		c.Stats.Atoms["string"] = true
		return eip712ref.JStr(genString(rt, label))
	}
}

// Field draws a value of member type t.  omit is true when the key should be
// left out of the parent object (only ever for absent struct references).
func (c *Ctx) Field(label string, t string, budget int) (n *J, omit bool) {
	base, dims, ok := eip712ref.SplitType(t)
	if !ok {
		panic("tdgen: malformed generated type " + t)
	}
	if len(dims) > c.Stats.MaxArrayDepth {
		c.Stats.MaxArrayDepth = len(dims)
	}
	return c.dims(label, base, dims, budget, true)
}

func (c *Ctx) dims(label string, base string, dims []int, budget int, top bool) (*J, bool) {
	rt := c.RT
	if len(dims) > 0 {
		outer := dims[len(dims)-1]
		n := outer
		if outer < 0 {
			max := 3
			if c.nodes > nodeBudget {
				max = 0
			}
			n = rapid.IntRange(0, max).Draw(rt, label+".n")
		} else {
			c.Stats.FixedArray = true
		}
		if n == 0 {
			c.Stats.EmptyArray = true
		}
		arr := &J{Kind: 'a'}
		for i := 0; i < n; i++ {
			e, _ := c.dims(fmt.Sprintf("%s.%d", label, i), base, dims[:len(dims)-1], budget-1, false)
			arr.Vals = append(arr.Vals, e)
		}
		c.nodes++
		return arr, false
	}
	if _, isStruct := c.Types[base]; isStruct {
		pAbsent := 1 // of 5
		if budget <= 0 || c.nodes > nodeBudget {
			pAbsent = 5
		} else if budget == 1 {
			pAbsent = 3
		}
		if rapid.IntRange(0, 4).Draw(rt, label+".absent") < pAbsent {
			if top && rapid.Bool().Draw(rt, label+".omit") {
				c.Stats.AbsentOmitted++
				return nil, true
			}
			if top {
				c.Stats.AbsentNull++
			} else {
				c.Stats.NullInArray++
			}
			return eip712ref.JNull(), false
		}
		return c.Struct(label, base, budget-1), false
	}
	kind, size := eip712ref.Atomic(base)
	return c.Atomic(label, kind, size, base), false
}

// Struct draws a present value of struct type name.
func (c *Ctx) Struct(label string, name string, budget int) *J {
	c.nodes++
	c.Stats.StructValues++
	o := eip712ref.JObj()
	for i, m := range c.Types[name] {
		v, omit := c.Field(fmt.Sprintf("%s.%d", label, i), m.Type, budget)
		if !omit {
			o.Set(m.Name, v)
		}
	}
	return o
}

// ---- domain

var DomainFields = []eip712ref.Member{
	{Name: "name", Type: "string"},
	{Name: "version", Type: "string"},
	{Name: "chainId", Type: "uint256"},
	{Name: "verifyingContract", Type: "address"},
	{Name: "salt", Type: "bytes32"},
}

// GenDomainType draws a subset of the standard fields (mask) or -1 for "no
// EIP712Domain type at all"; the full standard four (mask 15) keeps extra weight.
func GenDomainType(rt *rapid.T, st *Stats) (members []eip712ref.Member, defined bool) {
	mode := rapid.IntRange(0, 9).Draw(rt, "domain.mode")
	switch {
	case mode == 0:
		st.DomainMask = -1
		return nil, false
	case mode <= 2:
		st.DomainMask = 15
	default:
		st.DomainMask = rapid.IntRange(0, 31).Draw(rt, "domain.mask")
	}
	for i, f := range DomainFields {
		if st.DomainMask&(1<<i) != 0 {
			members = append(members, f)
		}
	}
	if len(members) > 1 && rapid.IntRange(0, 9).Draw(rt, "domain.shuffle") == 0 {
		st.DomainShuffled = true
		members = shuffleMembers(members, rapid.Uint64().Draw(rt, "domain.shuffleSeed"))
	}
	return members, true
}

// ---- documents

// Doc is a generated document: the JSON tree plus what it was built from.
type Doc struct {
	Root    *J
	Types   eip712ref.Types // including EIP712Domain when defined
	Primary string
	Stats   *Stats
}

// GenDoc draws a well-formed typed-data document.
func GenDoc(rt *rapid.T, maxStructs int, safeNumbersOnly bool) *Doc {
	st := NewStats()
	g := GenGraph(rt, maxStructs, false)
	types := g.Types()
	dm, domDefined := GenDomainType(rt, st)
	if domDefined {
		types[eip712ref.DomainType] = dm
	}
	primary := g.Names[0]
	if rapid.IntRange(0, 19).Draw(rt, "primaryIsDomain") == 0 {
		primary = eip712ref.DomainType
		st.PrimaryIsDomain = true
	}
	c := &Ctx{RT: rt, Types: types, Stats: st, SafeNumbersOnly: safeNumbersOnly}

	tn := eip712ref.JObj()
	if domDefined {
		tn.Set(eip712ref.DomainType, membersNode(dm))
	}
	for _, n := range g.Names {
		tn.Set(n, membersNode(g.Members[n]))
	}
	root := eip712ref.JObj()
	root.Set("types", tn)
	root.Set("primaryType", eip712ref.JStr(primary))
	// domain value
	switch {
	case domDefined:
		// domain atoms are not counted in the message statistics
		dc := &Ctx{RT: rt, Types: types, Stats: NewStats(), SafeNumbersOnly: safeNumbersOnly}
		root.Set("domain", dc.Struct("domain", eip712ref.DomainType, 1))
	default:
		switch rapid.IntRange(0, 3).Draw(rt, "domain.absentForm") {
		case 0:
		case 1:
			root.Set("domain", eip712ref.JObj())
		case 2:
			root.Set("domain", eip712ref.JNull())
		default:
			// values without a type: ignored
			root.Set("domain", eip712ref.JObj().Set("name", eip712ref.JStr("ignored")).Set("chainId", eip712ref.JNum("1")))
		}
	}
	// message
	if primary != eip712ref.DomainType {
		budget := rapid.IntRange(1, 4).Draw(rt, "budget")
		root.Set("message", c.Struct("msg", primary, budget))
	} else {
		switch rapid.IntRange(0, 2).Draw(rt, "message.absentForm") {
		case 0:
		case 1:
			root.Set("message", eip712ref.JObj())
		default:
			root.Set("message", eip712ref.JNull())
		}
	}
	FillGraphStats(st, g.Types(), g.Names[0], st.PrimaryIsDomain)
	return &Doc{Root: root, Types: types, Primary: primary, Stats: st}
}

func membersNode(ms []eip712ref.Member) *J {
	a := &J{Kind: 'a'}
	for _, m := range ms {
		a.Vals = append(a.Vals, eip712ref.JObj().Set("name", eip712ref.JStr(m.Name)).Set("type", eip712ref.JStr(m.Type)))
	}
	return a
}

// FillGraphStats computes the type-graph part of the statistics.
func FillGraphStats(st *Stats, types eip712ref.Types, primary string, primaryIsDomain bool) {
	st.Structs = len(types)
	refCount := map[string]int{}
	for name, ms := range types {
		if len(ms) == 0 {
			st.EmptyStruct = true
		}
		for _, m := range ms {
			base, dims, _ := eip712ref.SplitType(m.Type)
			if _, ok := types[base]; ok {
				refCount[base]++
				if len(dims) > 0 {
					st.ArrayOfStructs = true
				}
				if base == name {
					st.SelfRecursive = true
				}
			}
		}
	}
	for _, n := range refCount {
		if n > 1 {
			st.SharedStruct = true
		}
	}
	deps := eip712ref.Dependencies(primary, types)
	st.Reachable = len(deps) + 1
	if st.Reachable < len(types) {
		st.UnreferencedType = true
	}
	// recursion: some type reachable from itself
	for name := range types {
		for _, d := range eip712ref.Dependencies(name, types) {
			for _, m := range types[d] {
				base, _, _ := eip712ref.SplitType(m.Type)
				if base == name {
					st.Recursive = true
				}
			}
		}
		for _, m := range types[name] {
			base, _, _ := eip712ref.SplitType(m.Type)
			if base == name {
				st.Recursive = true
			}
		}
	}
}

// ---- variants

type prng struct{ x uint64 }

func (p *prng) next() uint64 {
	p.x ^= p.x << 13
	p.x ^= p.x >> 7
	p.x ^= p.x << 17
	return p.x
}

func shuffleMembers(ms []eip712ref.Member, seed uint64) []eip712ref.Member {
	p := &prng{x: seed | 1}
	out := append([]eip712ref.Member(nil), ms...)
	for i := len(out) - 1; i > 0; i-- {
		j := int(p.next() % uint64(i+1))
		out[i], out[j] = out[j], out[i]
	}
	return out
}

// Shuffled returns a deep copy of n in which the keys of every object are
// permuted (Fisher-Yates driven by a xorshift stream seeded with seed, itself
// drawn from rapid).  Arrays keep their order.
func Shuffled(n *J, seed uint64) *J {
	p := &prng{x: seed | 1}
	for i := 0; i < 4; i++ {
		p.next()
	}
	c := n.Clone()
	shuffleIn(c, p)
	return c
}

func shuffleIn(n *J, p *prng) {
	if n.Kind == 'o' {
		for i := len(n.Keys) - 1; i > 0; i-- {
			j := int(p.next() % uint64(i+1))
			n.Keys[i], n.Keys[j] = n.Keys[j], n.Keys[i]
			n.Vals[i], n.Vals[j] = n.Vals[j], n.Vals[i]
		}
	}
	for _, v := range n.Vals {
		shuffleIn(v, p)
	}
}

// JunkValue draws an arbitrary small JSON value.
func JunkValue(rt *rapid.T, label string, depth int) *J {
	k := rapid.IntRange(0, 9).Draw(rt, label+".k")
	if depth <= 0 && k >= 7 {
		k = 0
	}
	switch k {
	case 0:
		return eip712ref.JNull()
	case 1:
		return eip712ref.JBool(rapid.Bool().Draw(rt, label+".b"))
	case 2:
		return eip712ref.JNum(rapid.SampledFrom([]string{"0", "1", "-1", "1.5", "1e3", "9007199254740993", "18446744073709551616", "-9223372036854775809", "1e400", "-0", "0.1e-2"}).Draw(rt, label+".num"))
	case 3, 4:
		return eip712ref.JStr(rapid.SampledFrom([]string{"", "x", "0x", "0x01", "1", "-1", "true", "null", "uint256", "[]", "0xzz", "0x0000000000000000000000000000000000000001"}).Draw(rt, label+".str"))
	case 5:
		return eip712ref.JObj()
	case 6:
		return &J{Kind: 'a'}
	case 7, 8:
		a := &J{Kind: 'a'}
		n := rapid.IntRange(1, 3).Draw(rt, label+".n")
		for i := 0; i < n; i++ {
			a.Vals = append(a.Vals, JunkValue(rt, fmt.Sprintf("%s.%d", label, i), depth-1))
		}
		return a
	default:
		o := eip712ref.JObj()
		n := rapid.IntRange(1, 3).Draw(rt, label+".n")
		for i := 0; i < n; i++ {
			o.Set(fmt.Sprintf("q%d", i), JunkValue(rt, fmt.Sprintf("%s.%d", label, i), depth-1))
		}
		return o
	}
}

// WithExtraFields returns a copy of the document with keys that no struct type
// declares added to the message, to nested struct values, to the domain and to
// the top level ('q…' names are outside the identifier alphabet of the generator).
func WithExtraFields(rt *rapid.T, root *J) (*J, int) {
	c := root.Clone()
	added := 0
	var walk func(n *J, label string)
	walk = func(n *J, label string) {
		if n.Kind == 'o' {
			if rapid.IntRange(0, 2).Draw(rt, label+".add") != 0 {
				k := rapid.IntRange(1, 2).Draw(rt, label+".k")
				for i := 0; i < k; i++ {
					n.Set(fmt.Sprintf("q%d_%d", added, i), JunkValue(rt, fmt.Sprintf("%s.j%d", label, i), 2))
				}
				added++
			}
		}
		for i, v := range n.Vals {
			walk(v, fmt.Sprintf("%s.%d", label, i))
		}
	}
	if m := c.Get("message"); m != nil {
		walk(m, "xm")
	}
	if d := c.Get("domain"); d != nil {
		walk(d, "xd")
	}
	if rapid.Bool().Draw(rt, "xtop") {
		c.Set("qTop", JunkValue(rt, "xtop.j", 2))
		added++
	}
	return c, added
}

// WithUnreferencedTypes returns a copy of the document with 1..3 additional
// struct types ('q…' names) that nothing references.  They may reference the
// existing types and each other (including cycles).
func WithUnreferencedTypes(rt *rapid.T, root *J) *J {
	c := root.Clone()
	tn := c.Get("types")
	if tn == nil || tn.Kind != 'o' {
		return c
	}
	var existing []string
	for _, k := range tn.Keys {
		if k != eip712ref.DomainType {
			existing = append(existing, k)
		}
	}
	k := rapid.IntRange(1, 3).Draw(rt, "unref.n")
	var fresh []string
	for i := 0; i < k; i++ {
		fresh = append(fresh, fmt.Sprintf("q%s%d", rapid.SampledFrom([]string{"", "A", "_", "z"}).Draw(rt, fmt.Sprintf("unref.p%d", i)), i))
	}
	all := append(append([]string{}, existing...), fresh...)
	for i, name := range fresh {
		ms := genMembers(rt, fmt.Sprintf("unref%d", i), all, -1, false)
		tn.Set(name, membersNode(ms))
	}
	// nothing references these definitions, so nothing they say can matter - including a member of a
	// struct type that is defined nowhere, or of a type no grammar knows
	if rapid.IntRange(0, 2).Draw(rt, "unref.odd") == 0 {
		def := tn.Get(fresh[rapid.IntRange(0, len(fresh)-1).Draw(rt, "unref.oddIn")])
		if def != nil && def.Kind == 'a' {
			odd := rapid.SampledFrom([]string{"NowhereDefined", "NowhereDefined[]", "Nowhere[2][]", "uint12", "bytes33", "tuple", "fixed128x18", "function", "int", "uint"}).Draw(rt, "unref.oddType")
			def.Vals = append(def.Vals, eip712ref.JObj().Set("name", eip712ref.JStr("oddMember")).Set("type", eip712ref.JStr(odd)))
		}
	}
	return c
}

// Pruned returns a copy of the document without the struct types that take no
// part in the digest (outside the closure of the primary type and EIP712Domain).
func Pruned(root *J, types eip712ref.Types, primary string) (*J, int) {
	c := root.Clone()
	tn := c.Get("types")
	if tn == nil || tn.Kind != 'o' {
		return c, 0
	}
	keep := map[string]bool{eip712ref.DomainType: true, primary: true}
	for _, d := range eip712ref.Dependencies(primary, types) {
		keep[d] = true
	}
	for _, d := range eip712ref.Dependencies(eip712ref.DomainType, types) {
		keep[d] = true
	}
	removed := 0
	for _, k := range append([]string(nil), tn.Keys...) {
		if !keep[k] {
			tn.Del(k)
			removed++
		}
	}
	return c, removed
}

// ---- Solidity ABI tuples

// ABIDoc is a generated ABI tuple parameter with its hand-written typed-data equivalent.
type ABIDoc struct {
	Param   *J // ABI parameter JSON ({"type":"tuple","internalType":"struct C.X","components":[…]})
	Types   eip712ref.Types
	Primary string
	Message *J
	Stats   *Stats
	Alias   bool // some member used the uint/int alias
}

// GenABI draws an acyclic struct graph and renders it both ways.
func GenABI(rt *rapid.T, maxStructs int) *ABIDoc {
	st := NewStats()
	g := GenGraph(rt, maxStructs, true)
	types := g.Types()
	out := &ABIDoc{Types: types, Primary: g.Names[0], Stats: st}
	contract := rapid.SampledFrom([]string{"C.", "", "EIP712Examples.", "a.b."}).Draw(rt, "contract")
	var comp func(name string, label string, depth int) *J
	comp = func(name string, label string, depth int) *J {
		arr := &J{Kind: 'a'}
		for i, m := range types[name] {
			base, _, _ := eip712ref.SplitType(m.Type)
			suffix := m.Type[len(base):]
			p := eip712ref.JObj().Set("name", eip712ref.JStr(m.Name))
			if _, isStruct := types[base]; isStruct {
				p.Set("type", eip712ref.JStr("tuple"+suffix))
				p.Set("internalType", eip712ref.JStr("struct "+contract+base+suffix))
				p.Set("components", comp(base, fmt.Sprintf("%s.%d", label, i), depth+1))
			} else {
				abiType := base
				if (base == "uint256" || base == "int256") && rapid.IntRange(0, 2).Draw(rt, fmt.Sprintf("%s.%d.alias", label, i)) == 0 {
					abiType = base[:len(base)-3]
					out.Alias = true
				}
				p.Set("type", eip712ref.JStr(abiType+suffix))
				if rapid.IntRange(0, 3).Draw(rt, fmt.Sprintf("%s.%d.it", label, i)) != 0 {
					p.Set("internalType", eip712ref.JStr(base+suffix))
				}
			}
			arr.Vals = append(arr.Vals, p)
		}
		return arr
	}
	out.Param = eip712ref.JObj().
		Set("name", eip712ref.JStr("")).
		Set("type", eip712ref.JStr("tuple")).
		Set("internalType", eip712ref.JStr("struct "+contract+out.Primary)).
		Set("components", comp(out.Primary, "abi", 0))
	c := &Ctx{RT: rt, Types: types, Stats: st, SafeNumbersOnly: true}
	out.Message = c.Struct("msg", out.Primary, rapid.IntRange(1, 4).Draw(rt, "budget"))
	FillGraphStats(st, types, out.Primary, false)
	return out
}

// CountNodes returns the number of nodes in a JSON tree.
func CountNodes(n *J) int {
	if n == nil {
		return 0
	}
	c := 1
	for _, v := range n.Vals {
		c += CountNodes(v)
	}
	return c
}
