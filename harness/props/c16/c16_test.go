// Package c16 decides property C16 (the proxy answers every request body with
// well-formed JSON-RPC and keeps running) against ONE real ffsigner process per
// test binary: a rapid case is a history of hostile bodies; after every body the
// process must still be alive and must still answer eth_accounts.
//
// Oracle: the harness's own classification of the body (encoding/json tokenizer +
// ref/jsonrpc), written from the JSON-RPC 2.0 specification and the property text,
// never from the proxy's code; the reply is validated with ref/jsonrpc.
package c16

import (
	"bytes"
	"encoding/hex"
	"encoding/json"
	"errors"
	"fmt"
	"os"
	"sort"
	"strings"
	"testing"
	"time"
	"unicode/utf8"

	"pgregory.net/rapid"

	"verifharness/evid"
	"verifharness/gen"
	"verifharness/proc"
	"verifharness/ref/jsonrpc"
)

const rule = "history containing at least one body that is valid JSON but not a valid request (scalar/null top level, object without id or with ill-typed members, eth_sendTransaction with bad params or malformed from), " +
	"or a batch with a member that is not a valid request, or a body with more than 100 bytes of leading whitespace; distinct by hash of the whole history"

// ---------------------------------------------------------------------------
// Case

// Nest expands to Open^Depth + Core + Close^Depth.
type Nest struct {
	Depth int    `json:"depth"`
	Open  string `json:"open"`
	Close string `json:"close"`
	Core  string `json:"core"`
}

// Rep expands to N copies of Elem joined by commas.
type Rep struct {
	N    int    `json:"n"`
	Elem string `json:"elem"`
}

// Body is one request body, stored as a recipe so that a 1 MiB body stays a small case.
// bytes = WS × WSBytes-pattern ‖ (Hex decoded | Text with @NEST@ / @REP@ / @FILL@ expanded).
type Body struct {
	Label   string `json:"label,omitempty"` // how the generator built it (informational)
	WS      int    `json:"ws,omitempty"`
	WSBytes string `json:"ws_bytes,omitempty"` // hex of the pattern that is repeated (default 20 = space)
	Text    string `json:"text,omitempty"`
	Hex     string `json:"hex,omitempty"`
	Nest    *Nest  `json:"nest,omitempty"`
	Rep     *Rep   `json:"rep,omitempty"`
	Fill    int    `json:"fill,omitempty"` // @FILL@ becomes this many 'x' characters
}

// HistoryCase is a sequence of bodies posted to one process.
type HistoryCase struct {
	Bodies []Body `json:"bodies"`
}

const maxBody = 1 << 20

func (b Body) bytes() ([]byte, error) {
	var out bytes.Buffer
	if b.WS > 0 {
		pat := []byte{' '}
		if b.WSBytes != "" {
			p, err := hex.DecodeString(b.WSBytes)
			if err != nil || len(p) == 0 {
				return nil, fmt.Errorf("bad ws_bytes %q", b.WSBytes)
			}
			pat = p
		}
		for out.Len() < b.WS {
			out.Write(pat)
		}
		out.Truncate(b.WS)
	}
	if b.Hex != "" {
		raw, err := hex.DecodeString(b.Hex)
		if err != nil {
			return nil, fmt.Errorf("bad hex body: %v", err)
		}
		out.Write(raw)
	} else {
		t := b.Text
		if b.Nest != nil && strings.Contains(t, "@NEST@") {
			if b.Nest.Depth < 0 || b.Nest.Depth*(len(b.Nest.Open)+len(b.Nest.Close)) > 2*maxBody {
				return nil, errors.New("nest too large")
			}
			n := strings.Repeat(b.Nest.Open, b.Nest.Depth) + b.Nest.Core + strings.Repeat(b.Nest.Close, b.Nest.Depth)
			t = strings.Replace(t, "@NEST@", n, 1)
		}
		if b.Rep != nil && strings.Contains(t, "@REP@") {
			if b.Rep.N < 0 || b.Rep.N*(len(b.Rep.Elem)+1) > 2*maxBody {
				return nil, errors.New("rep too large")
			}
			parts := make([]string, b.Rep.N)
			for i := range parts {
				parts[i] = b.Rep.Elem
			}
			t = strings.Replace(t, "@REP@", strings.Join(parts, ","), 1)
		}
		if b.Fill > 0 && strings.Contains(t, "@FILL@") {
			if b.Fill > 2*maxBody {
				return nil, errors.New("fill too large")
			}
			t = strings.Replace(t, "@FILL@", strings.Repeat("x", b.Fill), 1)
		}
		out.WriteString(t)
	}
	if out.Len() > maxBody {
		out.Truncate(maxBody) // the quantifier stops at 1 MiB
	}
	return out.Bytes(), nil
}

// ---------------------------------------------------------------------------
// the harness's own reading of a body

// expect is what the property demands of the reply to one body.
type expect struct {
	class         string // evidence label
	ws            int    // bytes of leading JSON whitespace
	nontrivial    bool
	single        bool // a single response object is acceptable
	singleMustErr bool // ... and it must be an error object
	array         bool // an array of response objects is acceptable
	arrayLen      int  // ... of exactly this length (-1: any)
	elemMustErr   []bool
}

var requestFields = []string{"jsonrpc", "id", "method", "params"}
var txFields = []string{"from", "nonce", "gasPrice", "maxPriorityFeePerGas", "maxFeePerGas", "gas", "to", "value", "data"}

// foldAmbiguous: a member name that is not one of the fields but equals one under
// case folding (some decoders match it, some do not) - nothing is demanded then.
func foldAmbiguous(obj map[string]interface{}, fields []string) bool {
	for k := range obj {
		for _, f := range fields {
			if k != f && strings.EqualFold(k, f) {
				return true
			}
		}
	}
	return false
}

// hasDuplicateKeys reports an object with two equal (or fold-equal) member names
// anywhere in the text: which one wins is the decoder's choice.
func hasDuplicateKeys(b []byte) bool {
	dec := json.NewDecoder(bytes.NewReader(b))
	dec.UseNumber()
	type frame struct {
		obj     bool
		keys    map[string]bool
		wantKey bool
	}
	var st []frame
	closeValue := func() {
		if len(st) > 0 && st[len(st)-1].obj {
			st[len(st)-1].wantKey = true
		}
	}
	for {
		tok, err := dec.Token()
		if err != nil {
			return false
		}
		if d, ok := tok.(json.Delim); ok {
			switch d {
			case '{':
				st = append(st, frame{obj: true, keys: map[string]bool{}, wantKey: true})
			case '[':
				st = append(st, frame{})
			default:
				st = st[:len(st)-1]
				closeValue()
			}
			continue
		}
		if len(st) > 0 && st[len(st)-1].obj {
			f := &st[len(st)-1]
			if f.wantKey {
				k := strings.ToLower(tok.(string))
				if f.keys[k] {
					return true
				}
				f.keys[k] = true
				f.wantKey = false
			} else {
				f.wantKey = true
			}
		}
	}
}

func isHex40(s string) bool {
	s = strings.TrimPrefix(strings.TrimPrefix(s, "0x"), "0X")
	if len(s) != 40 {
		return false
	}
	_, err := hex.DecodeString(s)
	return err == nil
}

// memberVerdict classifies one request object (top level or batch member).
//
//	wellTyped: a JSON object whose jsonrpc/method/params members, when present, have the JSON types of a request
//	mustErr:   the property lists it as a request that cannot be processed (missing id, bad eth_sendTransaction params, malformed from)
//	lenient:   nothing beyond well-formedness may be demanded (ambiguous member names)
func memberVerdict(v interface{}) (wellTyped, mustErr, lenient bool) {
	obj, ok := v.(map[string]interface{})
	if !ok {
		return false, true, false
	}
	if foldAmbiguous(obj, requestFields) {
		return false, false, true
	}
	wellTyped = true
	if x, ok := obj["jsonrpc"]; ok && x != nil {
		if _, isStr := x.(string); !isStr {
			wellTyped = false
		}
	}
	method := ""
	if x, ok := obj["method"]; ok && x != nil {
		s, isStr := x.(string)
		if !isStr {
			wellTyped = false
		}
		method = s
	}
	var params []interface{}
	if x, ok := obj["params"]; ok && x != nil {
		arr, isArr := x.([]interface{})
		if !isArr {
			wellTyped = false
		}
		params = arr
	}
	if !wellTyped {
		return false, true, false
	}
	if id, ok := obj["id"]; !ok || id == nil {
		return true, true, false
	}
	if method == "eth_sendTransaction" {
		if len(params) == 0 {
			return true, true, false
		}
		tx, isObj := params[0].(map[string]interface{})
		if !isObj {
			return true, true, false
		}
		if foldAmbiguous(tx, txFields) {
			return true, false, false
		}
		from, has := tx["from"]
		if !has {
			return true, true, false
		}
		s, isStr := from.(string)
		if !isStr || !isHex40(s) {
			return true, true, false
		}
	}
	return true, false, false
}

func firstNonJSONSpace(b []byte) byte {
	for _, c := range b {
		if c != ' ' && c != '\t' && c != '\n' && c != '\r' {
			return c
		}
	}
	return 0
}

func leadingSpace(b []byte) int {
	for i, c := range b {
		if c != ' ' && c != '\t' && c != '\n' && c != '\r' {
			return i
		}
	}
	return len(b)
}

func classify(body []byte) (e expect) {
	ws := leadingSpace(body)
	e = expect{arrayLen: -1}
	defer func() {
		e.ws = ws
		if ws > 100 {
			e.nontrivial = true
		}
	}()
	v, err := jsonrpc.Parse(body)
	if err != nil {
		if strings.Contains(err.Error(), "exceeded max depth") {
			// deeper than the harness's own JSON reader follows: valid JSON for a more patient
			// parser, so any well-formed reply is accepted
			e.class, e.single, e.array = "deeper-than-10000", true, true
			return e
		}
		e.class, e.single, e.singleMustErr = "unparseable", true, true
		return e
	}
	lenientAll := !utf8.Valid(body) || hasDuplicateKeys(body)
	switch x := v.(type) {
	case map[string]interface{}:
		_, mustErr, lenient := memberVerdict(x)
		e.single = true
		e.singleMustErr = mustErr && !lenient && !lenientAll
		if mustErr {
			e.class, e.nontrivial = "object-not-a-valid-request", true
		} else {
			e.class = "object-request"
		}
	case []interface{}:
		e.array, e.arrayLen = true, len(x)
		if len(x) == 0 {
			e.class, e.single, e.singleMustErr, e.nontrivial = "batch-empty", true, true, true
			break
		}
		allWellTyped, anyInvalid := true, false
		e.elemMustErr = make([]bool, len(x))
		for i, m := range x {
			wt, mustErr, lenient := memberVerdict(m)
			if !wt {
				allWellTyped = false
			}
			if mustErr {
				anyInvalid = true
			}
			e.elemMustErr[i] = mustErr && !lenient && !lenientAll
		}
		if !allWellTyped || lenientAll {
			// a member that is not a well-typed request object: JSON-RPC allows a single
			// error object, the property text an array - both accepted
			e.single, e.singleMustErr = true, !lenientAll
		}
		switch {
		case !allWellTyped:
			e.class, e.nontrivial = "batch-with-ill-typed-member", true
		case anyInvalid:
			e.class, e.nontrivial = "batch-with-invalid-request", true
		default:
			e.class = "batch-of-valid-requests"
		}
	default:
		e.class, e.single, e.singleMustErr, e.nontrivial = "top-level-"+strings.TrimPrefix(strings.TrimPrefix(jsonrpc.KindOf(v), "a "), "an "), true, !lenientAll, true
	}
	if lenientAll {
		e.class += "+lenient"
	}
	return e
}

// ---------------------------------------------------------------------------
// the judge

var (
	pool *proc.Pool
	rec  *evid.Recorder
)

func short(b []byte) string {
	if len(b) > 160 {
		return fmt.Sprintf("%q…(%d bytes)", b[:160], len(b))
	}
	return fmt.Sprintf("%q", b)
}

func instance() (*proc.Instance, error) {
	if pool == nil {
		return nil, errors.New("process pool not initialised")
	}
	chain := int64(1337)
	in, err := pool.Get("c16", &chain, nil)
	if err != nil {
		return nil, err
	}
	return in, nil
}

func judgeReply(body, reply []byte, e expect) (vs []evid.Violation) {
	v, err := jsonrpc.Parse(reply)
	if err != nil {
		return append(vs, evid.V("reply-is-json", "reply to %s is not one JSON value (%v): %s", short(body), err, short(reply)))
	}
	switch x := v.(type) {
	case map[string]interface{}:
		if !e.single {
			return append(vs, evid.V("batch-answered-with-array", "body %s is a batch of %d well-typed request objects, but the reply is a single object: %s", short(body), e.arrayLen, short(reply)))
		}
		r, err := jsonrpc.CheckResponseAnyID(x)
		if err != nil {
			return append(vs, evid.V("reply-wellformed", "reply to %s: %v: %s", short(body), err, short(reply)))
		}
		if e.singleMustErr && !r.IsError {
			vs = append(vs, evid.V("error-object-expected", "body %s (%s) cannot be processed, yet the reply carries a result: %s", short(body), e.class, short(reply)))
		}
	case []interface{}:
		if !e.array {
			return append(vs, evid.V("reply-shape", "body %s (%s) is answered with an array: %s", short(body), e.class, short(reply)))
		}
		if e.arrayLen >= 0 && len(x) != e.arrayLen {
			return append(vs, evid.V("batch-length", "body %s has %d members, the reply has %d: %s", short(body), e.arrayLen, len(x), short(reply)))
		}
		for i, el := range x {
			r, err := jsonrpc.CheckResponseAnyID(el)
			if err != nil {
				return append(vs, evid.V("reply-wellformed", "reply to %s, element %d: %v: %s", short(body), i, err, short(reply)))
			}
			if i < len(e.elemMustErr) && e.elemMustErr[i] && !r.IsError {
				vs = append(vs, evid.V("error-object-expected", "member %d of %s cannot be processed, yet element %d of the reply carries a result", i, short(body), i))
			}
		}
	default:
		vs = append(vs, evid.V("reply-shape", "reply to %s is %s: %s", short(body), jsonrpc.KindOf(v), short(reply)))
	}
	return vs
}

var probeBody = []byte(`{"jsonrpc":"2.0","id":"verif-liveness","method":"eth_accounts","params":[]}`)

func probe(in *proc.Instance) error {
	res, err := in.Signer.Post(probeBody, 30*time.Second)
	if err != nil {
		return err
	}
	v, err := jsonrpc.Parse(res.Body)
	if err != nil {
		return fmt.Errorf("probe reply %s: %v", short(res.Body), err)
	}
	r, err := jsonrpc.CheckResponse(v)
	if err != nil {
		return fmt.Errorf("probe reply %s: %v", short(res.Body), err)
	}
	arr, ok := r.Result.([]interface{})
	if r.IsError || !ok || len(arr) != len(in.Listed()) {
		return fmt.Errorf("probe reply %s does not list the wallet's %d accounts", short(res.Body), len(in.Listed()))
	}
	// "keeps serving later requests": the answer has to be the answer to THIS request, not
	// one that inherited its id from an earlier body
	if id, isStr := r.ID.(string); !isStr || id != "verif-liveness" {
		return fmt.Errorf("probe reply %s does not carry the probe's id \"verif-liveness\"", short(res.Body))
	}
	return nil
}

func judgeHistory(c HistoryCase) (vs []evid.Violation) {
	in, err := instance()
	if err != nil {
		if errors.Is(err, proc.ErrBinary) {
			fmt.Fprintf(os.Stderr, "INFRASTRUCTURE: %v\n", err)
			os.Exit(2)
		}
		if strings.Contains(err.Error(), "address already in use") || strings.Contains(err.Error(), "no free loopback port") {
			return []evid.Violation{evid.Infra("no TCP port could be won for the ffsigner process: %v", err)}
		}
		return []evid.Violation{evid.V("process-starts", "the ffsigner process does not come up: %v", err)}
	}
	in.Backend.Install(&proc.Script{Default: proc.Reply{Kind: "echo"}, NonceDefault: proc.ResultReply(`"0x0"`), NonceOther: proc.ResultReply(`"0x0"`)})
	for i, b := range c.Bodies {
		body, err := b.bytes()
		if err != nil {
			return append(vs, evid.V("harness", "body %d: %v", i, err))
		}
		e := classify(body)
		if rec != nil {
			rec.AddExtraCount("bodies_posted", 1)
		}
		res, perr := in.Signer.Post(body, 30*time.Second)
		crashed := !in.Signer.Alive() || (perr != nil && in.Signer.WaitExit(750*time.Millisecond))
		if crashed {
			vs = append(vs, evid.V("process-survives", "the ffsigner process died on body %d of the history, %s: %s", i, short(body), in.Signer.ExitInfo(2500)))
			pool.NoteCrash()
			pool.Drop(in)
			return vs
		}
		if perr != nil {
			vs = append(vs, evid.V("reply-complete", "body %d %s: no complete HTTP reply within 30 s (truncated or missing): %v", i, short(body), perr))
			pool.Drop(in) // continue the next case on a fresh process
			return vs
		}
		vs = append(vs, judgeReply(body, res.Body, e)...)
		if err := probe(in); err != nil {
			if !in.Signer.Alive() || in.Signer.WaitExit(750*time.Millisecond) {
				vs = append(vs, evid.V("process-survives", "the ffsigner process died after body %d of the history, %s: %s", i, short(body), in.Signer.ExitInfo(2500)))
				pool.NoteCrash()
			} else {
				vs = append(vs, evid.V("keeps-serving", "after body %d %s the process no longer answers eth_accounts: %v", i, short(body), err))
			}
			pool.Drop(in)
			return vs
		}
	}
	return vs
}

// ---------------------------------------------------------------------------
// generators

var keys = proc.Keys(3)

var idMenu = []string{`1`, `0`, `-7`, `"a"`, `""`, `18446744073709551617`, `1.5`, `1e2`, `"é"`, `null`, `true`, `{}`, `[]`, `[1]`, `{"x":1}`}

// ---- id tokens ---------------------------------------------------------------------------
// The id is the one member an implementation is tempted to copy from a request it cannot
// otherwise process, so it gets a generator of its own: JSON texts, spelled by hand.

// idStrings: valid JSON strings whose text needs care when copied or scanned (escaped quotes,
// backslashes, every short escape, \u escapes in both hex cases, surrogate pairs, DEL, text
// that looks like JSON structure or like another id member).
var idStrings = []string{`"say \"hi\""`, `"\""`, `"\\"`, `"\\\""`, `"a\\"`, `"\\\\"`, `"tab\there"`, `"nl\nhere"`, `"\b\f\n\r\t"`, `"\/path\/x"`, `"\u0041"`, `"\u00e9"`, `"\u00E9"`, `"\u0022q\u0022"`,
	`"\u005c"`, `"\u0000"`, `"\u001f"`, `"\ud83d\ude00"`, `"\u2028"`, "\"\x7f\"", `"{\"id\":1}"`, `"[1,2]"`, `"null"`, `"1"`, `"x\",\"id\":\"y"`, `" "`, `"é"`, `"日本"`, `"\\u0041"`, `"}"`, `"]"`, `","`, `":"`}

// idNumbers: valid JSON numbers in odd spellings.
var idNumbers = []string{`0`, `-0`, `-0.0`, `0.0`, `0e0`, `0E-0`, `1.0`, `1e2`, `1E2`, `1E+2`, `1e+2`, `1e-2`, `100e-2`, `0.5e1`, `-1E+2`, `1.5`, `-2.25`, `1e400`, `1e-400`, `18446744073709551616`,
	`-9223372036854775809`, `1.000000000000000000000001`, `123456789012345678901234567890`, `9007199254740993`}

// idBroken: tokens in the id position that are NOT valid JSON (each makes the body unparseable).
var idBroken = []string{`01`, `00`, `-01`, `1.`, `.5`, `-.5`, `2e`, `2e+`, `2E-`, `1e1.5`, `-`, `+1`, `1-2`, `1+2`, `0x10`, `1_000`, `1,5`, `١`, `NaN`, `Infinity`, `-Infinity`, `nul`, `True`, `'a'`,
	"\"tab\there\"", "\"nl\nhere\"", "\"nul\x00byte\"", "\"esc\x1b\"", `"bad \x escape"`, `"bad \u12 escape"`, `"bad \uZZZZ"`, `"\ud83d"x`, `"unterminated`, `"half \`, `"a"b"`, `"a" "b"`, `1 2`, `"\"`, `""""`}

// genIDToken draws an id token; valid reports whether it is valid JSON.
func genIDToken(rt *rapid.T, label string) (tok string, valid bool) {
	switch k := rapid.IntRange(0, 9).Draw(rt, label+".idkind"); {
	case k < 3:
		return rapid.SampledFrom(idStrings).Draw(rt, label+".idstr"), true
	case k < 5:
		return rapid.SampledFrom(idNumbers).Draw(rt, label+".idnum"), true
	case k < 6:
		return rapid.SampledFrom(idMenu).Draw(rt, label+".idmenu"), true
	default:
		return rapid.SampledFrom(idBroken).Draw(rt, label+".idbroken"), false
	}
}

// damage: ways in which the REST of a request object makes it impossible to process, given
// as what precedes and what follows the id member inside the braces.  "" = nothing wrong
// (then the id token itself is what is broken, or the request is fine).
var damages = []struct{ name, rest string }{
	{"none", `"jsonrpc":"2.0","method":"eth_blockNumber","params":[]`},
	{"params-object", `"jsonrpc":"2.0","method":"eth_blockNumber","params":{"a":1}`},
	{"params-string", `"method":"eth_blockNumber","params":"x"`},
	{"method-number", `"jsonrpc":"2.0","method":5`},
	{"method-array", `"method":["eth_blockNumber"],"params":[]`},
	{"jsonrpc-number", `"jsonrpc":2.0,"method":"eth_blockNumber"`},
	{"sendtx-params-object", `"jsonrpc":"2.0","method":"eth_sendTransaction","params":{"from":"0x1234"}`},
	{"trailing-comma", `"jsonrpc":"2.0","method":"eth_blockNumber",`},
	{"missing-colon", `"jsonrpc":"2.0","method" "eth_blockNumber"`},
	{"bad-literal", `"jsonrpc":"2.0","method":"eth_blockNumber","params":[tru]`},
	{"control-char-in-string", "\"jsonrpc\":\"2.0\",\"method\":\"eth_block\x01Number\""},
	{"bad-escape", `"jsonrpc":"2.0","method":"eth_\qblockNumber"`},
	{"unbalanced", `"jsonrpc":"2.0","method":"eth_blockNumber","params":[[]`},
}

// genIDBody builds one request object around a generated id token, with the id member
// before, after, or in the middle of the rest, optionally truncated right after the id
// and optionally wrapped into a batch.
func genIDBody(rt *rapid.T, label string) Body {
	tok, valid := genIDToken(rt, label)
	dmg := rapid.SampledFrom(damages).Draw(rt, label+".damage")
	if valid && dmg.name == "none" && rapid.IntRange(0, 3).Draw(rt, label+".forcedamage") > 0 {
		dmg = damages[1+rapid.IntRange(0, len(damages)-2).Draw(rt, label+".damage2")]
	}
	if !valid && rapid.Bool().Draw(rt, label+".onlyid") {
		dmg = damages[0] // the id token is the only thing wrong with the request
	}
	idm := `"id":` + rapid.SampledFrom([]string{"", " ", "\n\t"}).Draw(rt, label+".idspace") + tok
	var obj string
	switch rapid.IntRange(0, 4).Draw(rt, label+".idpos") {
	case 0, 1:
		obj = `{` + idm + `,` + dmg.rest + `}`
	case 2, 3:
		obj = `{` + dmg.rest + `,` + idm + `}`
	default: // in the middle
		i := strings.Index(dmg.rest, `,"`)
		if i < 0 {
			obj = `{` + idm + `,` + dmg.rest + `}`
		} else {
			obj = `{` + dmg.rest[:i] + `,` + idm + dmg.rest[i:] + `}`
		}
	}
	name := "id-token-"
	if valid {
		name += "valid+"
	} else {
		name += "broken+"
	}
	if dmg.name != "none" {
		name += "rest-damaged"
	} else {
		name += "rest-fine"
	}
	switch rapid.IntRange(0, 9).Draw(rt, label+".wrap") {
	case 0: // cut right behind the id token
		if i := strings.Index(obj, idm); i >= 0 {
			obj = obj[:i+len(idm)]
			name += "+cut-after-id"
		}
	case 1, 2:
		obj = `[` + obj + `]`
		name += "+in-batch"
	case 3:
		obj = `[{"jsonrpc":"2.0","id":1,"method":"eth_blockNumber"},` + obj + `]`
		name += "+in-batch"
	case 4:
		obj = `[` + obj + `,{"jsonrpc":"2.0","id":1,"method":"eth_blockNumber"}]`
		name += "+in-batch"
	}
	return textBody(name, obj)
}

func validRequests() []string {
	k0, k1 := keys[0].Addr0x(), keys[1].Addr0x()
	return []string{
		`{"jsonrpc":"2.0","id":1,"method":"eth_call","params":[{"to":"0x00000000000000000000000000000000000000aa","data":"0x"},"latest"]}`,
		`{"jsonrpc":"2.0","id":"abc","method":"eth_blockNumber"}`,
		`{"jsonrpc":"2.0","id":2,"method":"eth_blockNumber","params":[]}`,
		`{"id":3,"method":"net_version","params":null}`,
		`{"jsonrpc":"2.0","id":4,"method":"eth_accounts"}`,
		`{"jsonrpc":"2.0","id":18446744073709551617,"method":"web3_sha3","params":["0x68656c6c6f"]}`,
		`{"jsonrpc":"2.0","id":5,"method":"eth_sendTransaction","params":[{"from":"` + k0 + `","to":"0x00000000000000000000000000000000000000bb","nonce":"0x1","gas":"0x5208","gasPrice":"0x1","value":"0x0","data":"0x"}]}`,
		`{"jsonrpc":"2.0","id":6,"method":"eth_sendTransaction","params":[{"from":"` + k1 + `","maxFeePerGas":"0x2","gas":21000,"data":"0xfeedbeef"}]}`,
		`{"params":["x"],"method":"m","id":7,"jsonrpc":"2.0","extra":{"a":[1,2,3]}}`,
	}
}

func badSendTx() []string {
	k0 := keys[0].Addr0x()
	wrap := func(params string) string {
		return `{"jsonrpc":"2.0","id":9,"method":"eth_sendTransaction","params":` + params + `}`
	}
	out := []string{
		`{"jsonrpc":"2.0","id":9,"method":"eth_sendTransaction"}`,
		wrap(`[]`), wrap(`[5]`), wrap(`[null]`), wrap(`["0x"]`), wrap(`[[]]`), wrap(`[{}]`), wrap(`[{"nonce":"0x1"}]`),
		wrap(`[{"from":"` + k0 + `","gas":true}]`), wrap(`[{"from":"` + k0 + `","nonce":"zz"}]`), wrap(`[{"from":"` + k0 + `","data":"0xzz"}]`),
		wrap(`[{"from":"` + k0 + `","to":"0x12"}]`), wrap(`[{"from":"` + k0 + `","value":-1}]`), wrap(`[{"from":"` + k0 + `","nonce":1.5}]`),
		wrap(`[{"from":"0x0000000000000000000000000000000000000001","nonce":"0x1"}]`), wrap(`[{"from":"0x0000000000000000000000000000000000000001"}]`),
	}
	for _, from := range []string{`"0x1234"`, `"not hex"`, `""`, `"0x"`, `"0x` + strings.Repeat("ab", 21) + `"`, `"0x` + strings.Repeat("zz", 20) + `"`, `5`, `{}`, `[]`, `null`, `true`, `"` + k0[:41] + `"`} {
		out = append(out, wrap(`[{"from":`+from+`}]`), wrap(`[{"from":`+from+`,"nonce":"0x0"}]`), wrap(`[{"from":`+from+`,"nonce":"0x0","gas":"0x1","data":"0x00"}]`))
	}
	return out
}

func invalidMembers() []string {
	return []string{`null`, `1`, `0`, `-1.5e3`, `"str"`, `""`, `true`, `false`, `[]`, `[1]`, `[null]`, `[[]]`, `{}`, `{"id":1}`, `{"method":"x"}`, `{"id":null,"method":"x"}`,
		`{"jsonrpc":"2.0","id":1,"method":"x","params":{"a":1}}`, `{"id":1,"method":5}`, `{"id":1,"method":null}`, `{"id":1,"method":["x"]}`, `{"id":1,"method":"x","params":"str"}`,
		`{"id":1,"method":"x","params":7}`, `{"jsonrpc":2.0,"id":1,"method":"x"}`, `{"jsonrpc":null,"id":1,"method":"x"}`, `{"id":{},"method":"x"}`, `{"id":[1,2],"method":"x"}`, `{"id":true,"method":"x"}`,
		`{"jsonrpc":"1.0","id":1,"method":"x"}`, `{"result":1,"id":1,"jsonrpc":"2.0"}`, `{"error":{"code":1,"message":"m"},"id":1}`, `{"ID":1,"Method":"x"}`, `{"id":1,"method":"x","params":[null,null]}`,
		`{"id":1,"method":"eth_accounts","params":{"a":1}}`, `{"id":1,"method":"personal_accounts"}`, `{"a":{"b":{"c":[1,2,{"d":null}]}}}`}
}

var topLevelValues = []string{`null`, `true`, `false`, `0`, `12`, `-1.5e3`, `1e400`, `"string"`, `""`, `{}`, `[]`, `[[]]`, `[{}]`, `[[],[]]`, `{"a":1}`, `[null]`, `[null,null]`, `[1]`, `["a"]`, `[true]`, ` `, ``, `nul`, `[`, `{`, `]`, `}`, `"`, `[,]`, `[1,]`, `{"id":1,}`, `{"id":1}{"id":2}`, `[] []`, `{"id":1,"method":"m"} x`, "\xef\xbb\xbf[]", "\xef\xbb\xbf{\"id\":1,\"method\":\"m\"}"}

var wsLens = []int{0, 1, 2, 50, 99, 100, 101, 102, 128, 1000, 4096, 70000}
var wsPatterns = []string{"20", "0a", "09", "0d", "200a090d", "0d0a"}
var nonJSONSpace = []string{"0b", "0c", "c2a0", "85", "a0", "e28080", "00"}

func genMember(rt *rapid.T, label string) string {
	switch k := rapid.IntRange(0, 9).Draw(rt, label+".kind"); {
	case k < 4:
		return rapid.SampledFrom(validRequests()).Draw(rt, label+".valid")
	case k < 7:
		return rapid.SampledFrom(invalidMembers()).Draw(rt, label+".invalid")
	case k < 9:
		return rapid.SampledFrom(badSendTx()).Draw(rt, label+".badtx")
	default:
		var id string
		switch rapid.IntRange(0, 2).Draw(rt, label+".idsrc") {
		case 0:
			id = rapid.SampledFrom(idMenu).Draw(rt, label+".id")
		case 1:
			id = rapid.SampledFrom(idStrings).Draw(rt, label+".idstr")
		default:
			id = rapid.SampledFrom(idNumbers).Draw(rt, label+".idnum")
		}
		return `{"jsonrpc":"2.0","id":` + id + `,"method":"eth_getBalance","params":["0x00000000000000000000000000000000000000cc","latest"]}`
	}
}

func genBatch(rt *rapid.T, label string) string {
	n := rapid.IntRange(1, 6).Draw(rt, label+".n")
	if rapid.IntRange(0, 9).Draw(rt, label+".many") == 0 {
		n = rapid.IntRange(7, 40).Draw(rt, label+".nmany")
	}
	parts := make([]string, n)
	for i := range parts {
		parts[i] = genMember(rt, fmt.Sprintf("%s.%d", label, i))
	}
	sep := rapid.SampledFrom([]string{",", ", ", " ,\n"}).Draw(rt, label+".sep")
	return "[" + strings.Join(parts, sep) + "]"
}

func mutateText(rt *rapid.T, label, s string) string {
	b := []byte(s)
	switch rapid.IntRange(0, 6).Draw(rt, label+".op") {
	case 0: // truncate
		if len(b) > 0 {
			b = b[:rapid.IntRange(0, len(b)-1).Draw(rt, label+".cut")]
		}
	case 1: // replace one byte
		if len(b) > 0 {
			b[rapid.IntRange(0, len(b)-1).Draw(rt, label+".at")] = gen.ByteBiased().Draw(rt, label+".byte")
		}
	case 2: // replace one byte with JSON punctuation
		if len(b) > 0 {
			b[rapid.IntRange(0, len(b)-1).Draw(rt, label+".at")] = rapid.SampledFrom([]byte(`{}[]",:0 ntf\-.e`)).Draw(rt, label+".punct")
		}
	case 3: // delete one byte
		if len(b) > 0 {
			i := rapid.IntRange(0, len(b)-1).Draw(rt, label+".at")
			b = append(b[:i:i], b[i+1:]...)
		}
	case 4: // append garbage
		b = append(b, rapid.SampledFrom([]string{"x", "}", "]", ",", "null", "{}", "[]", "\x00", " \n"}).Draw(rt, label+".tail")...)
	case 5: // duplicate
		b = append(b, b...)
	default: // drop the first byte
		if len(b) > 0 {
			b = b[1:]
		}
	}
	return string(b)
}

func textBody(label, s string) Body {
	if utf8.ValidString(s) {
		return Body{Label: label, Text: s}
	}
	return Body{Label: label, Hex: hex.EncodeToString([]byte(s))}
}

func genBody(rt *rapid.T, label string, thorough bool) Body {
	var b Body
	switch k := rapid.IntRange(-3, 19).Draw(rt, label+".kind"); {
	case k < 0: // a request object around a generated id token, damaged or not
		b = genIDBody(rt, label+".idbody")
	case k < 2: // arbitrary bytes
		n := gen.Len(rt, label+".len", 300)
		b = Body{Label: "random-bytes", Hex: gen.HexBytes(rt, label+".bytes", n)}
	case k < 3: // JSON alphabet soup
		n := rapid.IntRange(0, 30).Draw(rt, label+".len")
		alphabet := []string{"{", "}", "[", "]", ",", ":", `"`, `"id"`, `"method"`, `"params"`, `"jsonrpc"`, "1", "null", "true", " ", `"x"`, `"2.0"`, "-", "e", ".", "\\"}
		var sb strings.Builder
		for i := 0; i < n; i++ {
			sb.WriteString(rapid.SampledFrom(alphabet).Draw(rt, fmt.Sprintf("%s.t%d", label, i)))
		}
		b = Body{Label: "json-alphabet-soup", Text: sb.String()}
	case k < 5: // every JSON kind at top level + classic malformed texts
		b = textBody("top-level-value", rapid.SampledFrom(topLevelValues).Draw(rt, label+".top"))
	case k < 7: // a single request, valid or not
		b = Body{Label: "single", Text: genMember(rt, label+".single")}
	case k < 9: // eth_sendTransaction with bad params / malformed from
		b = Body{Label: "bad-sendtx", Text: rapid.SampledFrom(badSendTx()).Draw(rt, label+".badtx")}
	case k < 14: // batch with a mix of members
		b = Body{Label: "batch", Text: genBatch(rt, label+".batch")}
	case k < 16: // mutation of something valid
		var base string
		if rapid.Bool().Draw(rt, label+".mutbatch") {
			base = genBatch(rt, label+".mb")
		} else {
			base = rapid.SampledFrom(validRequests()).Draw(rt, label+".mv")
		}
		b = textBody("mutant", mutateText(rt, label+".mut", base))
	case k < 18: // deep nesting
		depth := rapid.SampledFrom([]int{2, 100, 1000, 5000, 9990, 9997, 9998, 9999, 10000, 10001, 10002, 20000, 100000}).Draw(rt, label+".depth")
		nest := rapid.SampledFrom([]Nest{{Open: "[", Close: "]", Core: ""}, {Open: "[", Close: "]", Core: "1"}, {Open: `{"a":`, Close: "}", Core: "null"}, {Open: "[", Close: "", Core: ""}, {Open: `[{"a":`, Close: "}]", Core: "[]"}}).Draw(rt, label+".nestkind")
		nest.Depth = depth
		tmpl := rapid.SampledFrom([]string{`@NEST@`, `{"jsonrpc":"2.0","id":1,"method":"m","params":[@NEST@]}`, `[{"jsonrpc":"2.0","id":1,"method":"m","params":[@NEST@]}]`, `{"jsonrpc":"2.0","id":@NEST@,"method":"m"}`,
			`[{"id":1,"method":"eth_blockNumber"},@NEST@]`, `{"jsonrpc":"2.0","id":1,"method":"eth_sendTransaction","params":[{"from":@NEST@}]}`}).Draw(rt, label+".nesttmpl")
		b = Body{Label: fmt.Sprintf("deep-nesting-%d", depth), Text: tmpl, Nest: &nest}
	case k < 19: // many members
		elem := rapid.SampledFrom([]string{`null`, `1`, `{}`, `[]`, `{"id":1,"method":"eth_blockNumber"}`, `{"id":1}`, `""`}).Draw(rt, label+".elem")
		n := rapid.SampledFrom([]int{64, 65, 200, 256}).Draw(rt, label+".n")
		// thousands of members only for kinds that can never be forwarded (no id): a member with an id
		// is a backend call, and tens of thousands of concurrent backend calls measure the machine's
		// descriptor limits, not the property
		if !strings.Contains(elem, `"id"`) && rapid.Bool().Draw(rt, label+".huge") {
			n = rapid.SampledFrom([]int{1000, 5000, 20000}).Draw(rt, label+".nhuge")
		}
		tmpl := rapid.SampledFrom([]string{`[@REP@]`, `[{"id":0,"method":"eth_blockNumber"},@REP@]`, `[@REP@,{"id":0,"method":"eth_blockNumber"}]`}).Draw(rt, label+".reptmpl")
		b = Body{Label: fmt.Sprintf("many-members-%d", n), Text: tmpl, Rep: &Rep{N: n, Elem: elem}}
	default: // large
		size := rapid.SampledFrom([]int{4096, 65536, 300000, 1 << 20, 1<<20 - 100}).Draw(rt, label+".size")
		tmpl := rapid.SampledFrom([]string{`{"jsonrpc":"2.0","id":1,"method":"m","params":["@FILL@"]}`, `{"jsonrpc":"2.0","id":"@FILL@","method":"m"}`, `[{"jsonrpc":"2.0","id":1,"method":"@FILL@"}]`, `@FILL@`, `["@FILL@"]`, `{"@FILL@":1}`,
			`{"jsonrpc":"2.0","id":1,"method":"eth_sendTransaction","params":[{"from":"` + keys[0].Addr0x() + `","nonce":"0x0","data":"0x@FILL@"}]}`}).Draw(rt, label+".filltmpl")
		b = Body{Label: fmt.Sprintf("large-%d", size), Text: tmpl, Fill: size}
	}
	// leading whitespace of the lengths the quantifier names, in front of anything
	switch w := rapid.IntRange(0, 9).Draw(rt, label+".wsmode"); {
	case w < 4:
		b.WS = rapid.SampledFrom(wsLens).Draw(rt, label+".ws")
		if p := rapid.SampledFrom(wsPatterns).Draw(rt, label+".wspat"); p != "20" {
			b.WSBytes = p
		}
	case w < 5:
		b.WS = rapid.SampledFrom([]int{1, 2, 3, 100, 101, 300}).Draw(rt, label+".ws")
		b.WSBytes = rapid.SampledFrom(nonJSONSpace).Draw(rt, label+".wsbad")
	}
	if b.WS == 0 {
		b.WSBytes = ""
	}
	return b
}

// ---------------------------------------------------------------------------
// entry points

func setup(t *testing.T) {
	if _, err := proc.BinaryPath(); err != nil {
		t.Fatalf("infrastructure: %v", err)
	}
	pool = proc.NewPool(t.TempDir())
	t.Cleanup(func() {
		pool.Close()
		pool = nil
	})
}

func TestCheck(t *testing.T) {
	rec = evid.Start("C16", rule)
	defer rec.Finish()
	setup(t)
	rec.Assume("real ffsigner binary built from the tree under test, one long-lived process per test binary (restarted after a recorded crash); echoing HTTP backend inside the harness; liveness = process not exited and eth_accounts answered after every body")
	rec.Assume("oracle: the harness's own body classification (encoding/json tokenizer + ref/jsonrpc) and ref/jsonrpc response validation")
	rec.Assume("not asserted: HTTP status codes; the id of the reply; for [] and for batches with a member that is not a well-typed request object both a single error object and a same-length array are accepted; bodies nested deeper than 10,000, with duplicate or case-fold-ambiguous member names, or with invalid UTF-8 only need a well-formed reply")
	kH := evid.NewKind(rec, "history", judgeHistory)
	rec.Corpus(t)
	// histories average ~5.5 bodies
	rec.Rapid(t, "history", rec.N(500, 3600), func(rt *rapid.T) {
		var c HistoryCase
		c.Bodies = rapid.SliceOfN(rapid.Custom(func(rt *rapid.T) Body { return genBody(rt, "b", rec.Thorough()) }), 1, 10).Draw(rt, "bodies")
		classes := map[string]bool{}
		nt := false
		for _, b := range c.Bodies {
			raw, err := b.bytes()
			if err != nil {
				rt.Fatalf("generator produced an unbuildable body: %v", err)
			}
			e := classify(raw)
			classes["body:"+e.class] = true
			switch {
			case e.ws > 4096:
				classes["ws:>4096"] = true
			case e.ws > 100:
				classes["ws:101..4096"] = true
			case e.ws == 100:
				classes["ws:100"] = true
			case e.ws == 99:
				classes["ws:99"] = true
			case e.ws > 0:
				classes["ws:1..98"] = true
			}
			if e.ws >= 100 && len(raw) > e.ws && (raw[e.ws] == '[') {
				classes["ws>=100-before-["] = true
			}
			lbl := b.Label
			if i := strings.LastIndexByte(lbl, '-'); i > 0 && strings.ContainsAny(lbl[i+1:], "0123456789") {
				lbl = lbl[:i]
			}
			classes["gen:"+lbl] = true
			if len(raw) >= 65536 {
				classes["size>=64KiB"] = true
			}
			if len(raw) >= 1<<20 {
				classes["size=1MiB"] = true
			}
			nt = nt || e.nontrivial
		}
		cl := make([]string, 0, len(classes))
		for k := range classes {
			cl = append(cl, k)
		}
		sort.Strings(cl)
		kH.Check(rt, c, nt, cl...)
	})
	if pool != nil {
		rec.Extra("processes_started", pool.Stats.Started)
		rec.Extra("processes_crashed", pool.Stats.Crashed)
	}
}

func TestReplay(t *testing.T) {
	rec = evid.Start("C16", rule)
	setup(t)
	evid.NewKind(rec, "history", judgeHistory)
	rec.Replay(t)
}
